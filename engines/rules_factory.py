"""C17 / C14: factory <-> constructor agreement (D1-D3, D5) and complete member initialisation (D4).
Finite and exhaustive: every enumerator, every class, every field."""
from facts import AnalysisBroken, walk, strip_all_casts, member_path
from core import short
from codec import HEADER_CLASSES

OHB = 'Vector::BLF::ObjectHeaderBase'
OT = 'Vector::BLF::ObjectType'
FILE = 'Vector::BLF::File'


def ctor_code(F, cls, depth=0):
    """type code a default-constructed `cls` carries: follow the constructor's base initialiser down to ObjectHeaderBase.
    returns (code value or None, explanation)"""
    ctors = [f for f in F.functions.get(cls + '::' + cls.split('::')[-1], []) if f.get('kind') == 'ctor']
    dflt = [c for c in ctors if len(c['params']) == 0]
    if not dflt:
        return None, 'no default constructor body found'
    return _ctor_passes(F, dflt[0], {}, 0)


def _ctor_passes(F, ctor, env, depth):
    """env: param id -> constant value. Finds the value reaching ObjectHeaderBase::objectType"""
    if depth > 6:
        return None, 'constructor chain too deep'
    for i in ctor.get('inits', []):
        if i.get('kind') == 'member' and i.get('name') == 'objectType' and ctor['class'] == OHB:
            v = _const(i.get('init'), env)
            return v, 'ObjectHeaderBase::objectType initialised from the constructor argument'
    for i in ctor.get('inits', []):
        if i.get('kind') != 'base':
            continue
        base = i.get('name')
        if base != OHB and OHB not in F.all_bases(base):
            continue
        init = i.get('init')
        if not isinstance(init, dict) or init.get('k') != 'Construct':
            return None, 'base %s is not initialised by a constructor call' % short(base)
        cands = [f for f in F.functions.get(init.get('callee'), []) if f['sig'] == init.get('csig')]
        if len(cands) != 1:
            return None, 'cannot resolve base constructor ' + str(init.get('callee'))
        callee = cands[0]
        nenv = {}
        args = init.get('args', [])
        for p, a in zip(callee['params'], args):
            nenv[p['id']] = _const(a, env)
        return _ctor_passes(F, callee, nenv, depth + 1)
    return None, 'no base initialiser towards ObjectHeaderBase in ' + short(ctor['name'])


def _const(e, env):
    e = strip_all_casts(e)
    if not isinstance(e, dict):
        return None
    if e.get('k') == 'DefaultArg':
        return _const(e.get('e'), env)
    if e.get('k') == 'Construct' and e.get('args'):
        return _const(e['args'][0], env)
    if e.get('k') == 'InitList' and len(e.get('elems', [])) == 1:
        return _const(e['elems'][0], env)
    if e.get('k') == 'Ref' and e.get('dk') == 'parm':
        return env.get(e['id'])
    if 'v' in e:
        return e['v']
    return None


def factory_table(F):
    """code value -> (class or None, line) from the switch of File::createObject"""
    fn = F.fn(FILE + '::createObject')
    sw = [n for n in walk(fn['body']) if n.get('k') == 'Switch']
    if len(sw) != 1:
        raise AnalysisBroken('File::createObject: expected one switch, found %d' % len(sw))
    sw = sw[0]
    body = sw['body']['body'] if sw['body'].get('k') == 'Compound' else [sw['body']]
    table = {}
    has_default = False
    pending = []
    # result variable
    rv = None
    for n in walk(fn['body']):
        if n.get('k') == 'Decl':
            for v in n['vars']:
                if v['t'].endswith('*'):
                    rv = v
    groups = []
    cur_labels, cur_stmts = [], []
    for st in body:
        labels = []
        c = st
        while isinstance(c, dict) and c.get('k') in ('Case', 'Default'):
            labels.append(c)
            c = c.get('sub')
        if labels:
            if cur_stmts and not _ends_with_break(cur_stmts):
                # fall-through from the previous group: labels accumulate
                cur_labels += labels
            else:
                if cur_labels:
                    groups.append((cur_labels, cur_stmts))
                cur_labels, cur_stmts = labels, []
        cur_stmts.append(c)
    if cur_labels:
        groups.append((cur_labels, cur_stmts))
    for labels, stmts in groups:
        news = []
        others = []
        for s_ in stmts:
            for n in walk(s_):
                if n.get('k') == 'New':
                    news.append(n)
            if isinstance(s_, dict) and s_.get('k') == 'Return':
                rvv = strip_all_casts(s_.get('value') or {})
                if rvv.get('lit') == 'null' or rvv.get('k') == 'New' or rvv.get('id') == (rv or {}).get('id'):
                    continue   # `return nullptr;` / `return new X;` / `return obj;` end a case like `break`
            if isinstance(s_, dict) and s_.get('k') not in ('Break',) and not (s_.get('k') == 'Bin' and s_.get('op') == '='):
                others.append(s_)
        cls = None
        assigned_ok = True
        if news:
            cls = news[0].get('rec')
            # the new expression must be assigned to the result variable, or returned directly
            asg = [n for s_ in stmts for n in walk(s_) if n.get('k') == 'Bin' and n.get('op') == '=' and
                   strip_all_casts(n['lhs']).get('id') == (rv or {}).get('id')]
            rets = [n for s_ in stmts for n in walk(s_) if n.get('k') == 'Return' and strip_all_casts(n.get('value') or {}).get('k') == 'New']
            assigned_ok = (len(asg) == 1 or len(rets) == 1) and len(news) == 1
            others = [o for o in others if o.get('k') != 'Return']
        for lab in labels:
            if lab['k'] == 'Default':
                has_default = True
                continue
            v = strip_all_casts(lab['value']).get('v')
            table[v] = {'cls': cls, 'line': lab.get('l'), 'assigned_ok': assigned_ok, 'extra': len(others)}
    return fn, sw, table, has_default, rv


def _ends_with_break(stmts):
    last = stmts[-1] if stmts else None
    return isinstance(last, dict) and last.get('k') in ('Break', 'Return')


def eval_factory(F, fn, table, rv, code):
    """what createObject returns for the concrete type code `code`: the statements around the switch (guards, early returns,
    conversions of the operand) are interpreted with folded constants; returns a class name, None (nullptr), or raises
    AnalysisBroken for a construct the evaluator does not know"""
    pid = fn['params'][0]['id']
    SIZES = {'unsigned char': 1, 'signed char': 1, 'char': 1, 'unsigned short': 2, 'short': 2, 'unsigned int': 4, 'int': 4,
             'unsigned long': 8, 'long': 8, 'Vector::BLF::ObjectType': 4}

    class Ret(Exception):
        def __init__(self, v):
            self.v = v
    env = {}

    def val(e):
        e0 = e
        if not isinstance(e, dict):
            raise AnalysisBroken('createObject: cannot evaluate an expression')
        k = e.get('k')
        if k == 'Cast':
            v = val(e['sub'])
            if isinstance(v, int):
                sz = SIZES.get(e.get('t'))
                if sz:
                    v &= (1 << (8 * sz)) - 1
                    if e.get('t') in ('signed char', 'short', 'int', 'long') and v >> (8 * sz - 1):
                        v -= 1 << (8 * sz)
            return v
        if k == 'Ref':
            if e.get('id') == pid:
                return code
            if e.get('id') in env:
                return env[e['id']]
            if 'v' in e:
                return e['v']
            raise AnalysisBroken('createObject: reference to %s cannot be evaluated' % e.get('name'))
        if k == 'Lit':
            if e.get('lit') == 'null':
                return None
            return e.get('v')
        if 'v' in e:
            return e['v']
        if k == 'New':
            return ('class', e.get('rec'))
        if k == 'Un' and e.get('op') == '!':
            return int(not val(e['sub']))
        if k == 'Bin':
            o = e['op']
            if o == '&&':
                return int(bool(val(e['lhs'])) and bool(val(e['rhs'])))
            if o == '||':
                return int(bool(val(e['lhs'])) or bool(val(e['rhs'])))
            a, b = val(e['lhs']), val(e['rhs'])
            if o in ('==', '!='):
                return int((a == b) == (o == '=='))
            if not (isinstance(a, int) and isinstance(b, int)):
                raise AnalysisBroken('createObject: non-integer comparison')
            if o in ('<', '<=', '>', '>='):
                return int({'<': a < b, '<=': a <= b, '>': a > b, '>=': a >= b}[o])
            r_ = {'+': a + b, '-': a - b, '&': a & b, '|': a | b, '*': a * b}.get(o)
            # the arithmetic of the expression's own type: unsigned differences wrap
            t_ = (e.get('t') or '').replace('const ', '')
            sz = SIZES.get(t_)
            if r_ is not None and sz and (t_.startswith('unsigned') or t_.startswith('uint') or t_ in ('size_t', 'std::size_t')):
                r_ &= (1 << (8 * sz)) - 1
            return r_
        if k == 'Call' and e.get('calleeInRoot'):
            # a helper that only returns one expression over its parameters (EnvironmentVariable::servesObjectType(type)): evaluated on the values
            cands = [c for c in F.functions.get(e.get('callee'), []) if c['sig'] == e.get('csig') and c.get('body')]
            if len(cands) == 1:
                rets = [r for r in walk(cands[0]['body'], into_lambda=False) if r.get('k') == 'Return' and r.get('value') is not None]
                stm = cands[0]['body'].get('body', []) if cands[0]['body'].get('k') == 'Compound' else []
                if len(rets) == 1 and all(isinstance(x, dict) and x.get('k') in ('Return', 'Decl') for x in stm) and len(cands[0].get('params', [])) == len(e.get('args', [])):
                    saved = dict(env)
                    for p_, a_ in zip(cands[0]['params'], e['args']):
                        env[p_['id']] = val(a_)
                    for x in stm:
                        if x.get('k') == 'Decl':
                            for v_ in x['vars']:
                                env[v_['id']] = val(v_['init']) if v_.get('init') is not None else None
                    try:
                        return val(rets[0]['value'])
                    finally:
                        env.clear()
                        env.update(saved)
        raise AnalysisBroken('createObject: unsupported expression %s at line %s' % (k, e0.get('l')))

    def run(s_):
        if s_ is None:
            return
        k = s_.get('k')
        if k == 'Compound':
            for c in s_['body']:
                run(c)
        elif k == 'Decl':
            for v in s_['vars']:
                env[v['id']] = val(v['init']) if v.get('init') is not None else None
        elif k == 'If':
            if val(s_['cond']):
                run(s_.get('then'))
            else:
                run(s_.get('else'))
        elif k == 'Return':
            raise Ret(val(s_['value']) if s_.get('value') is not None else None)
        elif k == 'Bin' and s_.get('op') == '=':
            t = strip_all_casts(s_['lhs'])
            env[t.get('id')] = val(s_['rhs'])
        elif k == 'Switch':
            v = val(s_['cond'])
            body = s_['body']['body'] if s_['body'].get('k') == 'Compound' else [s_['body']]
            active = False
            for st in body:
                c = st
                while isinstance(c, dict) and c.get('k') in ('Case', 'Default'):
                    if c['k'] == 'Case' and strip_all_casts(c['value']).get('v') == v:
                        active = True
                    c = c.get('sub')
                if active:
                    if isinstance(c, dict) and c.get('k') == 'Break':
                        break
                    run(c)
            else:
                if not active:
                    # default label?
                    seen_default = False
                    for st in body:
                        c = st
                        while isinstance(c, dict) and c.get('k') in ('Case', 'Default'):
                            if c['k'] == 'Default':
                                seen_default = True
                            c = c.get('sub')
                        if seen_default:
                            if isinstance(c, dict) and c.get('k') == 'Break':
                                break
                            run(c)
        elif k in ('Null', 'Break'):
            return
        else:
            raise AnalysisBroken('createObject: unsupported statement %s at line %s' % (k, s_.get('l')))
    try:
        run(fn['body'])
    except Ret as r:
        v = r.v
        if isinstance(v, tuple):
            return v[1]
        return None
    return None


def D123(F, rep):
    en = F.enums.get(OT)
    if en is None:
        raise AnalysisBroken('enum ObjectType vanished')
    fn, sw, table, has_default, rv = factory_table(F)
    rep.saw_function(fn['name'])
    names = {e['value']: e['name'] for e in en['enumerators']}
    # D3 exhaustiveness
    rep.count('D3')
    missing = [names[v] for v in names if v not in table]
    rep.ob('D3', 'switch|exhaustive', not missing and not has_default and sw.get('allEnumCasesCovered'), rep.fn_site(fn, sw['l']),
           'createObject: the switch covers all %d enumerators explicitly and has no default' % len(names) if not missing and not has_default else
           'createObject: %s' % ('default label present' if has_default else 'enumerators without a case: ' + ', '.join(missing)), nontrivial=True)
    # D3b: the switch dispatches on the parameter itself - a narrowing conversion in front of it aliases foreign codes
    rep.count('D3')
    c = sw['cond']
    narrowed = [x for x in walk(c) if x.get('k') == 'Cast' and x.get('style') != 'implicit']
    cref = strip_all_casts(c)
    is_param = isinstance(cref, dict) and cref.get('k') == 'Ref' and cref.get('dk') == 'parm'
    rep.ob('D3', 'switch|operand', is_param and not narrowed, rep.fn_site(fn, sw['l']),
           'createObject switches on its parameter unconverted' if is_param and not narrowed else
           'createObject switches on a converted / derived value (%s): codes outside the enumeration may alias assigned ones' %
           (', '.join(x.get('t', '?') for x in narrowed) or 'not the parameter'), nontrivial=True)
    # D2: null initialiser, returned unchanged for codes without a class
    rep.count('D2')
    init_null = rv is not None and strip_all_casts(rv.get('init') or {}).get('lit') == 'null'
    rets = [n for n in walk(fn['body']) if n.get('k') == 'Return']
    ret_ok = bool(rets) and all(strip_all_casts(r_.get('value') or {}).get('id') == (rv or {}).get('id') or
                                strip_all_casts(r_.get('value') or {}).get('lit') == 'null' or
                                strip_all_casts(r_.get('value') or {}).get('k') == 'New' for r_ in rets)
    rep.ob('D2', 'result|null-init', init_null and ret_ok, rep.fn_site(fn),
           'createObject returns a variable initialised to nullptr (so any value outside the enumeration, 0..2^32-1, yields nothing)' if init_null and ret_ok
           else 'createObject result variable is not null-initialised / not the single returned value', nontrivial=True)
    # D2b: values outside the enumeration (boundary and 32-bit aliases of assigned codes) yield nothing
    rep.count('D2')
    hi = max(names)
    probes = sorted({hi + 1, hi + 2, 0xff, 0x100, 0xffff, 0x10000, 0x10001, 0x10000 + hi, 0x7fffffff, 0x80000000, 0xffff0001, 0xffffffff} - set(names))
    wrong = [(pv, eval_factory(F, fn, table, rv, pv)) for pv in probes]
    wrong = [(pv, c) for pv, c in wrong if c is not None]
    rep.ob('D2', 'outside-enumeration', not wrong, rep.fn_site(fn),
           'createObject yields nothing for %d probe values outside the enumeration (%d .. 0xffffffff)' % (len(probes), hi + 1) if not wrong else
           'createObject(0x%x) yields a %s although the code is not assigned' % (wrong[0][0], short(wrong[0][1])), nontrivial=True)
    # classes
    obj_classes = [c for c in F.derived_from(OHB) if not F.records[c]['abstract'] and c not in HEADER_CLASSES]
    codes_of = {}
    for c in obj_classes:
        v, why = ctor_code(F, c)
        codes_of[c] = (v, why)
    # D1 forward: each enumerator
    for v in sorted(names):
        rep.count('D1')
        ent = table.get(v)
        nm = names[v]
        if ent is None:
            rep.ob('D1', 'code|%s' % nm, False, rep.fn_site(fn), 'no case for ObjectType::%s' % nm)
            continue
        cls = ent['cls']
        # what the whole function returns for this code (guards and conversions in front of the switch included)
        actual = eval_factory(F, fn, table, rv, v)
        if actual != cls:
            rep.ob('D1', 'code|%s' % nm, False, rep.fn_site(fn, ent['line']),
                   'code %d (%s): the case news %s but createObject(%d) returns %s - a guard or conversion in front of the switch intercepts this code'
                   % (v, nm, short(cls or 'nothing'), v, short(actual or 'nothing')), nontrivial=True)
            continue
        if cls is None:
            reserved = nm == 'UNKNOWN' or nm.startswith('Reserved')
            ok = reserved and ent['extra'] == 0
            rep.ob('D1', 'code|%s' % nm, ok, rep.fn_site(fn, ent['line']),
                   'code %d (%s) yields nothing%s' % (v, nm, '' if ok else ' although it is neither UNKNOWN nor Reserved*: objects of this type are skipped'),
                   nontrivial=False)
            continue
        cv, why = codes_of.get(cls, (None, 'not an object class'))
        shared = sorted(names[x] for x, e in table.items() if e['cls'] == cls)
        ok = ent['assigned_ok'] and cv is not None and table.get(cv, {}).get('cls') == cls and (cv == v or len(shared) > 1)
        rep.ob('D1', 'code|%s' % nm, ok, rep.fn_site(fn, ent['line']),
               'code %d (%s) -> new %s, whose constructor carries %s%s' % (v, nm, short(cls), names.get(cv, cv),
                                                                          '' if cv == v else (' (one of the %d codes sharing the class)' % len(shared) if ok else
                                                                                              ' - the factory maps that code to %s' % short(table.get(cv, {}).get('cls') or 'nothing'))),
               nontrivial=True)
    # D1 converse: each class is the target of its own code
    for c in obj_classes:
        rep.count('D1')
        cv, why = codes_of[c]
        tgt = table.get(cv, {}).get('cls') if cv is not None else None
        ok = cv is not None and tgt == c
        rep.ob('D1', 'class|%s' % short(c), ok, None,
               'a default-constructed %s carries %s, which the factory maps back to %s' % (short(c), names.get(cv, cv), short(tgt or 'nothing')) if cv is not None else
               '%s: %s' % (short(c), why), nontrivial=True)
    return table, names


def D5(F, rep, LR):
    """the code flows ctor-arg -> objectType member -> emitted by write; read stores it"""
    from codec import Interp
    rep.count('D5')
    I = Interp(F, OHB, 'write')
    w = [p for p in I.run('write') if not p.infeasible]
    emits = any(it.path == ('objectType',) and it.value is not None and repr(it.value) == 'objectType' for p in w for it in p.items)
    rep.ob('D5', 'write|objectType', emits, None, 'ObjectHeaderBase::write emits the objectType member unchanged' if emits else
           'ObjectHeaderBase::write does not emit the objectType member', nontrivial=True)
    rep.count('D5')
    I = Interp(F, OHB, 'read')
    r = [p for p in I.run('read') if not p.infeasible and not p.thrown]
    stores = all(any(it.path == ('objectType',) for it in p.items) for p in r) and bool(r)
    rep.ob('D5', 'read|objectType', stores, None, 'ObjectHeaderBase::read stores the type code in objectType', nontrivial=True)
    # ... and nothing in between changes it: no codec function assigns objectType (an encoder that "normalises" the code writes a different
    # type than the object carries, and changes the object it was given)
    rep.count('D5')
    bad = []
    nfn = 0
    for name, fns in F.functions.items():
        for fn in fns:
            cls = fn.get('class') or ''
            if not (cls == OHB or OHB in F.all_bases(cls)) or fn.get('kind') in ('ctor', 'dtor'):
                continue
            nfn += 1
            # a copy / move assignment takes the code over from the object it copies: that is what "the copy carries the same code" means (D8
            # checks that it does so for every member)
            copy_from = None
            if fn.get('simple') == 'operator=' and len(fn.get('params', [])) == 1 and cls.split('::')[-1] in (fn['params'][0].get('t') or ''):
                copy_from = fn['params'][0]['id']
            for n in walk(fn['body']):
                t = None
                if n.get('k') == 'Bin' and n.get('op') in ('=', '|=', '&=', '+=', '-='):
                    t = n['lhs']
                    if copy_from is not None and n.get('op') == '=':
                        r_ = strip_all_casts(n['rhs'])
                        if isinstance(r_, dict) and r_.get('k') == 'Member' and r_.get('name') == 'objectType' and \
                                (strip_all_casts(r_.get('base')) or {}).get('id') == copy_from:
                            continue
                elif n.get('k') == 'Call' and n.get('ck') == 'operator' and n.get('op') == '=' and n.get('args'):
                    t = n['args'][0]
                if t is not None:
                    p_ = member_path(t)
                    if p_ and p_[-1] == 'objectType' and len([x for x in p_ if not x.startswith('$')]) == 1:
                        bad.append('%s (line %s)' % (short(fn['name']), n.get('l')))
    rep.ob('D5', 'objectType|never-reassigned', not bad and nfn > 100, None,
           'no member function of the %d object classes assigns objectType (set by the constructor, stored by read())' % nfn if not bad else
           'objectType is assigned outside constructor / stream read: %s' % ', '.join(bad[:4]), nontrivial=True)


def D6(F, rep):
    """a constructor's base-class initialiser runs before the members of the class are initialised: its arguments must not read them"""
    n = 0
    for name, fns in sorted(F.functions.items()):
        for fn in fns:
            if fn.get('kind') != 'ctor' or not fn.get('class', '').startswith('Vector::BLF::'):
                continue
            own = {f['name'] for f in F.records.get(fn['class'], {}).get('fields', [])}
            for i in fn.get('inits', []):
                if i.get('kind') != 'base' or i.get('init') is None:
                    continue
                n += 1
                used = sorted({x['name'] for x in walk(i['init']) if x.get('k') == 'Member' and x.get('dk') == 'field' and x.get('name') in own and
                               x.get('owner') == fn['class']})
                if used or n <= 1:
                    pass
                rep.count('D6')
                rep.ob('D6', '%s|%s' % (short(fn['class']), short(i.get('name') or '?')), not used, rep.fn_site(fn),
                       '%s: the %s initialiser reads no member of the object under construction' % (short(fn['name']), short(i.get('name') or 'base')) if not used else
                       '%s passes its own member %s to the %s constructor, which runs before that member is initialised: the value is indeterminate'
                       % (short(fn['name']), ', '.join(used), short(i.get('name') or 'base')), nontrivial=bool(used))
    if n < 100:
        raise AnalysisBroken('D6: only %d base initialisers found' % n)


def D8(F, rep):
    """copies keep the identity: the copy / move assignment operators and copy / move constructors of the object classes and their headers
    are the compiler's (implicit or defaulted) - or, when written by hand, they take over every member of the class.  An assignment that
    leaves objectType (or any field) of the target alone makes `slot = objectRead` carry the slot's old code: the copy is then written,
    and read back, as another type"""
    n = 0
    bad = []
    classes = [c for c in serialised_records(F) if c != 'Vector::BLF::File' and not c.startswith('Vector::BLF::File::')]
    for c in classes:
        rec = F.records[c]
        own = [f['name'] for f in rec['fields']]
        n += 1
        for q in (c + '::operator=', c + '::' + c.split('::')[-1]):
            for fn in F.functions.get(q, []):
                if not fn.get('body') or fn.get('defaulted'):
                    continue
                ps = fn.get('params', [])
                if len(ps) != 1 or c.split('::')[-1] not in (ps[0].get('t') or '') or '&' not in (ps[0].get('t') or ''):
                    continue     # not a copy / move operation
                taken = {i.get('name') for i in fn.get('inits', []) or [] if i.get('kind') == 'member' and i.get('written', True)}
                for x in walk(fn['body']):
                    if x.get('k') == 'Bin' and x.get('op') == '=' or (x.get('k') == 'Call' and x.get('ck') == 'operator' and x.get('op') == '='):
                        lhs = x['lhs'] if x.get('k') == 'Bin' else (x.get('args') or [None])[0]
                        t = strip_all_casts(lhs) if lhs is not None else None
                        if isinstance(t, dict) and t.get('k') == 'Member' and t.get('name') in own:
                            taken.add(t['name'])
                    if x.get('k') == 'Call' and x.get('fn') == 'swap':
                        for a in [x.get('obj')] + list(x.get('args', [])):
                            t = strip_all_casts(a) if a is not None else None
                            if isinstance(t, dict) and t.get('k') == 'Member' and t.get('name') in own:
                                taken.add(t['name'])
                missing = [f for f in own if f not in taken]
                if missing:
                    bad.append((fn, missing))
    rep.count('D8')
    rep.ob('D8', 'copies|complete', not bad and n > 100, rep.fn_site(bad[0][0]) if bad else None,
           'no hand-written copy / move operation of the %d serialised classes leaves a member behind' % n if not bad and n > 100 else
           ('%s does not take over %s: a copy keeps the target\'s old value there - an object assigned into a slot of the same class is written under the '
            'slot\'s type code' % (short(bad[0][0]['name']), ', '.join(bad[0][1]))) if bad else 'only %d serialised classes found' % n, nontrivial=True)


def serialised_records(F):
    """records whose members are serialised: object classes, their bases, sub-object member types, FileStatistics"""
    out = []
    seen = set()
    # ... and File with its stages: their scalar members end up in the header (counters, offsets) or steer what is written (sizes, flags)
    roots = [c for c in F.derived_from(OHB)] + [OHB, 'Vector::BLF::FileStatistics', 'Vector::BLF::File']
    todo = list(roots)
    while todo:
        c = todo.pop()
        if c in seen or c not in F.records:
            continue
        seen.add(c)
        out.append(c)
        r = F.records[c]
        todo += r['bases']
        for f in r['fields']:
            if f.get('kind') == 'record' and f['t'] in F.records:
                todo.append(f['t'])
            el = f.get('elem') or {}
            if el.get('kind') == 'record' and el.get('t') in F.records:
                todo.append(el['t'])
    return sorted(out)


def D4(F, rep):
    """every scalar / array member of every serialised class has an initialiser (default member initialiser, or a
    member initialiser in every user-provided constructor)"""
    # plain aggregates without member initialisers (SYSTEMTIME): value-initialised by the `{}` of the member holding them
    def plain_aggregate(t):
        r = F.records.get(t)
        return bool(r) and not r['hasUserCtor'] and not r['bases'] and not r['polymorphic'] and not any(f.get('hasInit') for f in r['fields'])
    for c in serialised_records(F):
        r = F.records[c]
        if plain_aggregate(c):
            continue
        ctors = [f for f in F.functions.get(c + '::' + c.split('::')[-1].split('<')[0], []) if f.get('kind') == 'ctor']
        for f in r['fields']:
            k = f.get('kind')
            needs = k in ('int', 'bool', 'enum', 'float', 'ptr', 'carray') or (k == 'record' and f.get('rec') == 'std::array') or \
                (k == 'record' and f.get('aggregate') and not f.get('hasUserCtor') and (f['t'] not in F.records or plain_aggregate(f['t'])))
            if not needs:
                continue
            rep.count('D4')
            ok = bool(f.get('hasInit'))
            how = 'default member initialiser'
            if not ok and ctors:
                ok = all(any(i.get('kind') == 'member' and i.get('name') == f['name'] and i.get('written') for i in ct.get('inits', [])) for ct in ctors)
                how = 'member initialiser in every constructor'
            rep.ob('D4', '%s|%s' % (short(c), f['name']), ok, '%s:%s' % (F.rel(r['file']), f['line']),
                   '%s::%s (%s) has a %s' % (short(c), f['name'], f['t'], how) if ok else
                   '%s::%s (%s) has no initialiser: a freshly constructed object is encoded from indeterminate memory' % (short(c), f['name'], f['t']),
                   nontrivial=False)


def D7(F, rep):
    """the numeric codes are the file format: every enumerator of ObjectType that exists today has the value it had when the table
    rules/object_type_codes.json was frozen from this code base, and no two enumerators share a value.  (D1-D3 compare code with code by
    *name*; two enumerators that swap their numbers stay consistent by name while every file of the two types decodes as the other.)"""
    import json as _json
    import os as _os
    tab = _json.load(open(_os.path.join(_os.path.dirname(_os.path.dirname(_os.path.abspath(__file__))), 'rules', 'object_type_codes.json')))['codes']
    en = F.enums.get(OT)
    if not en:
        raise AnalysisBroken('enum ObjectType vanished')
    cur = {e['name']: e['value'] for e in en['enumerators']}
    checked = 0
    gone = []
    for name, val in sorted(tab.items(), key=lambda kv: kv[1]):
        if name not in cur:
            gone.append(name)
            continue
        checked += 1
        rep.count('D7')
        ok = cur[name] == val
        rep.ob('D7', 'code|%s' % name, ok, '%s:%s' % (F.rel(en['file']), [e['line'] for e in en['enumerators'] if e['name'] == name][0]),
               'ObjectType::%s = %d as in the format' % (name, val) if ok else
               'ObjectType::%s is now %d; the BLF format (and every existing file) uses %d for it' % (name, cur[name], val), nontrivial=False)
    vals = {}
    for n_, v_ in cur.items():
        vals.setdefault(v_, []).append(n_)
    dup = {v_: ns for v_, ns in vals.items() if len(ns) > 1}
    rep.count('D7')
    rep.ob('D7', 'codes|distinct', not dup, '%s:%s' % (F.rel(en['file']), en.get('line')),
           'the %d enumerators of ObjectType have distinct values' % len(cur) if not dup else 'enumerators share a value: %s' % dup, nontrivial=True)
    if gone:
        rep.notes.append('D7: enumerators of the frozen table that no longer exist (not checked): %s' % ', '.join(gone[:8]))
    if checked < 100:
        raise AnalysisBroken('D7: only %d of the %d frozen enumerators were found' % (checked, len(tab)))
