"""Symbolic values for the layout algebra (DESIGN A5): linear forms over member values and
container sizes with integer coefficients, opaque terms for everything non-linear, and a
small exact satisfiability test for conjunctions of guards (interval / bit-mask reasoning
per term - a finite case split, no solver)."""

INF = float('inf')


class Lin:
    """const + sum(coeff * term); terms are hashable tuples"""
    __slots__ = ('c', 't')

    def __init__(self, c=0, t=None):
        self.c = int(c)
        self.t = {k: v for k, v in (t or {}).items() if v != 0}

    @staticmethod
    def term(term, coeff=1):
        return Lin(0, {term: coeff})

    def is_const(self):
        return not self.t

    def __add__(self, o):
        if isinstance(o, int):
            return Lin(self.c + o, self.t)
        t = dict(self.t)
        for k, v in o.t.items():
            t[k] = t.get(k, 0) + v
        return Lin(self.c + o.c, t)

    def __neg__(self):
        return Lin(-self.c, {k: -v for k, v in self.t.items()})

    def __sub__(self, o):
        if isinstance(o, int):
            return Lin(self.c - o, self.t)
        return self + (-o)

    def scale(self, k):
        return Lin(self.c * k, {a: b * k for a, b in self.t.items()})

    def key(self):
        return (self.c, tuple(sorted(self.t.items(), key=repr)))

    def nonconst_key(self):
        return tuple(sorted(self.t.items(), key=repr))

    def __eq__(self, o):
        return isinstance(o, Lin) and self.c == o.c and self.t == o.t

    def __hash__(self):
        return hash(self.key())

    def terms(self):
        return list(self.t.keys())

    def all_atoms(self):
        """all atoms, descending into opaque op terms"""
        out = []

        def rec_term(t):
            out.append(t)
            if t[0] == 'op':
                for sub in t[2:]:
                    if isinstance(sub, Lin):
                        for x in sub.t:
                            rec_term(x)
        for t in self.t:
            rec_term(t)
        return out

    def __repr__(self):
        parts = []
        for k, v in sorted(self.t.items(), key=repr):
            s = term_str(k)
            if v == 1:
                parts.append(s)
            elif v == -1:
                parts.append('-' + s)
            else:
                parts.append('%d*%s' % (v, s))
        if self.c or not parts:
            parts.append(str(self.c))
        return ' + '.join(parts).replace('+ -', '- ')


def term_str(t):
    k = t[0]
    if k == 'f':
        return '.'.join(t[1]) or 'this'
    if k == 'sz':
        return '.'.join(t[1]) + '.size()'
    if k == 'in':
        return 'in(' + '.'.join(t[1]) + ('#%d' % t[2] if len(t) > 2 and t[2] else '') + ')'
    if k == 'init':
        return 'init(' + '.'.join(t[1]) + ')'
    if k == 'op':
        return '(' + (' ' + t[1] + ' ').join(repr(x) for x in t[2:]) + ')'
    if k == 'local':
        return 'local:' + str(t[1])
    if k == 'call':
        return t[1]
    return repr(t)


def const(v):
    return Lin(v)


def op(opname, a, b):
    """binary arithmetic on Lin values; non-linear results become opaque terms"""
    if opname == '+':
        return a + b
    if opname == '-':
        return a - b
    if opname == '*':
        if a.is_const():
            return b.scale(a.c)
        if b.is_const():
            return a.scale(b.c)
        # canonical order for commutativity
        x, y = sorted([a, b], key=lambda l: repr(l.key()))
        return Lin.term(('op', '*', x, y))
    if opname == '/' and b.is_const() and b.c > 0 and not a.is_const():
        # exact division of a linear form (arithmetic in Z, overflow ignored - DESIGN 8)
        if a.c % b.c == 0 and all(v % b.c == 0 for v in a.t.values()):
            return Lin(a.c // b.c, {k: v // b.c for k, v in a.t.items()})
    if a.is_const() and b.is_const():
        try:
            if opname == '/':
                return Lin(int(a.c / b.c)) if b.c else Lin.term(('op', '/', a, b))
            if opname == '%':
                return Lin(a.c % b.c) if b.c else Lin.term(('op', '%', a, b))
            if opname == '&':
                return Lin(a.c & b.c)
            if opname == '|':
                return Lin(a.c | b.c)
            if opname == '^':
                return Lin(a.c ^ b.c)
            if opname == '<<':
                return Lin(a.c << b.c)
            if opname == '>>':
                return Lin(a.c >> b.c)
        except (ValueError, OverflowError):
            pass
    if opname in ('&', '|', '^'):
        x, y = sorted([a, b], key=lambda l: repr(l.key()))
        return Lin.term(('op', opname, x, y))
    return Lin.term(('op', opname, a, b))


def trunc(v, bits):
    """value after a narrowing conversion to an unsigned type of `bits` bits"""
    if v.is_const():
        return Lin(v.c & ((1 << bits) - 1))
    return Lin.term(('op', 'trunc', v, Lin(bits)))


def drop_trunc(l):
    """the same value under the assumption that every narrowed quantity is representable in its target type"""
    out = Lin(l.c)
    for t, k in l.t.items():
        if t[0] == 'op' and t[1] == 'trunc':
            out = out + drop_trunc(t[2]).scale(k)
        elif t[0] == 'op':
            out = out + Lin.term(('op', t[1]) + tuple(drop_trunc(x) if isinstance(x, Lin) else x for x in t[2:]), k)
        else:
            out = out + Lin.term(t, k)
    return out


def subst_eq(l, guards):
    """the same value with every term the guards pin to a constant (term == c) replaced by that constant"""
    eqs = {}
    for g in guards or ():
        if isinstance(g, tuple) and g[0] == 'cmp' and g[2] == '==' and len(g[1]) == 1:
            t, k = g[1][0]
            if k != 0 and g[3] % k == 0:
                eqs[t] = g[3] // k
    if not eqs or not any(t in eqs for t in l.t):
        return l
    out = Lin(l.c)
    for t, k in l.t.items():
        out = out + (Lin(eqs[t] * k) if t in eqs else Lin.term(t, k))
    return out


def minmax(name, a, b):
    if a.is_const() and b.is_const():
        return Lin(max(a.c, b.c) if name == 'max' else min(a.c, b.c))
    if a == b:
        return a
    x, y = sorted([a, b], key=lambda l: repr(l.key()))
    return Lin.term(('op', name, x, y))


# ----------------------------------------------------------------------------- guards
#
# ('cmp', nonconst_key, op, c)  :  lin(nonconst) OP c,  OP in < <= == != > >=
# ('bits', lin_key, mask, nz)   :  ((lin) & mask) != 0  is nz
#
# sign normalisation: the first term's coefficient is positive.

NEG = {'<': '>=', '<=': '>', '==': '!=', '!=': '==', '>': '<=', '>=': '<'}
FLIP = {'<': '>', '<=': '>=', '==': '==', '!=': '!=', '>': '<', '>=': '<='}


def g_cmp(lhs, opname, rhs):
    """guard lhs OP rhs (Lin, Lin); returns guard or bool if decidable"""
    d = lhs - rhs
    if d.is_const():
        v = d.c
        return {'<': v < 0, '<=': v <= 0, '==': v == 0, '!=': v != 0, '>': v > 0, '>=': v >= 0}[opname]
    c = -d.c
    nk = d.nonconst_key()
    if nk[0][1] < 0:
        nk = tuple((k, -v) for k, v in nk)
        c = -c
        opname = FLIP[opname]
    return ('cmp', nk, opname, c)


def g_bits(lin, mask, nz=True):
    if lin.is_const():
        return ((lin.c & mask) != 0) == nz
    return ('bits', lin.key(), mask, nz)


def g_not(g):
    if isinstance(g, bool):
        return not g
    if g[0] == 'cmp':
        return ('cmp', g[1], NEG[g[2]], g[3])
    if g[0] == 'bits':
        return ('bits', g[1], g[2], not g[3])
    raise ValueError(g)


def g_str(g):
    if isinstance(g, bool):
        return str(g)
    if g[0] == 'cmp':
        return '%r %s %d' % (Lin(0, dict(g[1])), g[2], g[3])
    if g[0] == 'bits':
        return '(%r & 0x%x) %s 0' % (Lin(g[1][0], dict(g[1][1])), g[2], '!=' if g[3] else '==')
    return repr(g)


def satisfiable(guards, bounds=None):
    """exact per-key satisfiability of a conjunction of guards; independent keys are assumed
    independent (over-approximation of feasibility: may keep an infeasible combination, never
    drops a feasible one)."""
    bounds = bounds or {}
    cmps = {}
    bits = {}
    for g in guards:
        if g is True:
            continue
        if g is False:
            return False
        if g[0] == 'cmp':
            cmps.setdefault(g[1], []).append((g[2], g[3]))
        elif g[0] == 'bits':
            bits.setdefault(g[1], []).append((g[2], g[3]))
    for nk, lst in cmps.items():
        lo, hi = -INF, INF
        if len(nk) == 1 and nk[0][1] == 1 and nk[0][0] in bounds:
            lo, hi = bounds[nk[0][0]]
        excl = set()
        for o, c in lst:
            if o == '<':
                hi = min(hi, c - 1)
            elif o == '<=':
                hi = min(hi, c)
            elif o == '>':
                lo = max(lo, c + 1)
            elif o == '>=':
                lo = max(lo, c)
            elif o == '==':
                lo = max(lo, c)
                hi = min(hi, c)
            elif o == '!=':
                excl.add(c)
        if lo > hi:
            return False
        if hi - lo < 64:
            if all(v in excl for v in range(int(lo), int(hi) + 1)):
                return False
    for lk, lst in bits.items():
        zero = 0
        for m, nz in lst:
            if not nz:
                zero |= m
        for m, nz in lst:
            if nz and (m & ~zero) == 0:
                return False
        # interplay with a cmp on the same single term: (x == 0) contradicts (x & m) != 0
        c, terms = lk
        if c == 0 and len(terms) == 1 and terms[0][1] == 1:
            nk = (terms[0],)
            for o, cc in cmps.get(nk, []):
                if o == '==' and any(nz and (cc & m) == 0 for m, nz in lst):
                    return False
                if o == '==' and any((not nz) and (cc & m) != 0 for m, nz in lst):
                    return False
    # masked comparisons ((x & M) OP c) together with bit tests on the same x: exact by enumeration of the bits involved
    cons = {}
    for lk, lst in bits.items():
        for m, nz in lst:
            cons.setdefault(lk, []).append(('bits', m, nz))
    masked = False
    for nk, lst in cmps.items():
        if len(nk) == 1 and nk[0][1] == 1 and nk[0][0][0] == 'op' and nk[0][0][1] == '&':
            a, b = nk[0][0][2], nk[0][0][3]
            if isinstance(a, Lin) and isinstance(b, Lin) and (a.is_const() != b.is_const()):
                base, m = (b, a.c) if a.is_const() else (a, b.c)
                for o, c in lst:
                    cons.setdefault(base.key(), []).append(('mcmp', m, o, c))
                    masked = True
    if masked:
        for lk, lst in cons.items():
            if not any(x[0] == 'mcmp' for x in lst):
                continue
            U = 0
            for x in lst:
                U |= x[1]
            ubits = [i for i in range(U.bit_length()) if (U >> i) & 1]
            if len(ubits) > 12:
                continue
            found = False
            for n_ in range(1 << len(ubits)):
                v = 0
                for j, bpos in enumerate(ubits):
                    if (n_ >> j) & 1:
                        v |= 1 << bpos
                ok = True
                for x in lst:
                    if x[0] == 'bits':
                        if ((v & x[1]) != 0) != x[2]:
                            ok = False
                            break
                    else:
                        w = v & x[1]
                        o, c = x[2], x[3]
                        if not {'<': w < c, '<=': w <= c, '==': w == c, '!=': w != c, '>': w > c, '>=': w >= c}[o]:
                            ok = False
                            break
                if ok:
                    found = True
                    break
            if not found:
                return False
    return True


def decide(g, known, bounds=None):
    """returns the list of feasible truth values of g given the known guards"""
    if isinstance(g, bool):
        return [g]
    out = []
    if satisfiable(list(known) + [g], bounds):
        out.append(True)
    if satisfiable(list(known) + [g_not(g)], bounds):
        out.append(False)
    return out
