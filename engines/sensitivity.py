"""Checker sensitivity run (DESIGN 7, thorough tier): every recorded mutant patch is applied to a
scratch copy of /repo's sources (outside /repo and /verif, removed afterwards), the copy is
re-extracted with blfscan and the property's rules must fire on the mutated construct; every
benign refactoring must leave the set of failed obligations unchanged.

Nothing is executed: the copy is only parsed.  A mutant whose patch no longer applies to the
current tree is reported as stale (the tree moved on), not as a failure."""
import json
import os
import shutil
import subprocess
import tempfile

import core
import facts
from facts import AnalysisBroken

VERIF = facts.VERIF


def load_index():
    p = os.path.join(VERIF, 'mutants', 'index.json')
    if not os.path.exists(p):
        return {'mutants': [], 'benign': []}
    return json.load(open(p))


def scratch_copy(repo):
    d = tempfile.mkdtemp(prefix='vblf_sens_', dir=os.environ.get('TMPDIR', '/tmp'))
    dst = os.path.join(d, 'repo')
    os.makedirs(dst)
    subprocess.check_call(['rsync', '-a', '--exclude', '_build', '--exclude', '.git', repo.rstrip('/') + '/', dst + '/'])
    return d, dst


def apply_patch(dst, patch):
    r = subprocess.run(['patch', '-p1', '--no-backup-if-mismatch', '-s', '-d', dst, '-i', patch], capture_output=True, text=True)
    return r.returncode == 0, (r.stdout + r.stderr)[-400:]


def failed_keys(prop, repo, base=None, changed=None):
    import props
    F = facts.load(repo, base=base, changed=changed)
    rep = core.Report(F)
    cx = props.Ctx(F)
    props.PROPS[prop]['run'](F, rep, 'quick', cx)
    fk = {o['key']: o for o in rep.failed()}
    # the driver's safety net: pipeline rules that fail while an anchor function contains a construct the analysis does not look
    # into are 'undecided' (exit 2), not violations
    if any(o['rule'] in core.PIPE_RULES and not o.get('positive') for o in fk.values()):
        opq = core.opaque_constructs(F)
        if opq:
            for o in fk.values():
                if o['rule'] in core.PIPE_RULES and not o.get('positive'):
                    o['undecided'] = opq[0]
    return fk


def run(prop, repo, seed=0, base_failed=None, control_only=False):
    """returns coverage dict; raises AnalysisBroken when a mutant is missed or a benign variant alarms"""
    idx = load_index()
    muts = [m for m in idx['mutants'] if prop in m['properties']]
    bens = [b for b in idx['benign'] if prop in b.get('properties', [prop]) or not b.get('properties')]
    if seed:
        import random
        rnd = random.Random(seed)
        rnd.shuffle(muts)
        rnd.shuffle(bens)
    if control_only:
        # quick tier: one positive control per run (rotating with the seed) - a rule that has gone blind is exit 2
        muts = muts[seed % len(muts):][:1] if muts else []
        bens = []
    if base_failed is None:
        base_failed = set(failed_keys(prop, repo).keys())
    bc, _ = facts.prepare(repo)
    base = (bc, os.path.abspath(repo))
    results = []
    missed = []
    alarms = []
    stale = []
    for kind, lst in (('mutant', muts), ('benign', bens)):
        for m in lst:
            patch = os.path.join(VERIF, 'mutants' if kind == 'mutant' else 'benign', m['patch'])
            d, dst = scratch_copy(repo)
            try:
                ok, msg = apply_patch(dst, patch)
                if not ok:
                    stale.append(m['name'])
                    results.append({'name': m['name'], 'kind': kind, 'verdict': 'stale (patch does not apply to the current tree)'})
                    continue
                changed = [l[6:].strip() for l in open(patch) if l.startswith('+++ b/')]
                try:
                    fk = failed_keys(prop, dst, base=base, changed=changed)
                except AnalysisBroken as ex:
                    if kind == 'mutant' and m.get('expect_broken'):
                        results.append({'name': m['name'], 'kind': kind, 'verdict': 'caught as analysis-broken: ' + str(ex)[:160]})
                        continue
                    results.append({'name': m['name'], 'kind': kind, 'verdict': 'analysis broken on the variant: ' + str(ex)[:200]})
                    (missed if kind == 'mutant' else alarms).append(m['name'] + ' (analysis broken: %s)' % str(ex)[:120])
                    continue
                new = sorted(set(fk) - base_failed)
                if kind == 'mutant':
                    exp = m.get('expect', [])
                    hit = [k for k in new if any(x in k for x in exp)] if exp else new
                    if hit:
                        results.append({'name': m['name'], 'kind': kind, 'verdict': 'caught', 'by': hit[:4], 'site': fk[hit[0]].get('site'),
                                        'what': fk[hit[0]]['what'][:240]})
                    else:
                        missed.append(m['name'])
                        results.append({'name': m['name'], 'kind': kind, 'verdict': 'MISSED', 'new_failed': new[:6]})
                else:
                    und = [k for k in new if fk[k].get('undecided')]
                    if new and len(und) == len(new):
                        results.append({'name': m['name'], 'kind': kind, 'verdict': 'undecided (exit 2, no alarm): ' + fk[new[0]]['undecided'][:160]})
                    elif new:
                        alarms.append('%s -> %s' % (m['name'], new[:3]))
                        results.append({'name': m['name'], 'kind': kind, 'verdict': 'FALSE ALARM', 'new_failed': new[:6],
                                        'what': fk[new[0]]['what'][:240]})
                    else:
                        results.append({'name': m['name'], 'kind': kind, 'verdict': 'silent'})
            finally:
                shutil.rmtree(d, ignore_errors=True)
    # drop the facts caches of the scratch copies
    shutil.rmtree(os.path.join(facts.BUILD, 'cache_scratch_%d' % os.getpid()), ignore_errors=True)
    cov = {('positive_control' if control_only else 'sensitivity'): {'mutants': len(muts), 'caught': len([r for r in results if r['kind'] == 'mutant' and r['verdict'].startswith('caught')]),
                           'benign': len(bens), 'silent': len([r for r in results if r['kind'] == 'benign' and r['verdict'] == 'silent']),
                           'undecided': len([r for r in results if r['kind'] == 'benign' and r['verdict'].startswith('undecided')]),
                           'stale': stale, 'results': results}}
    if missed or alarms:
        raise AnalysisBroken('checker sensitivity run failed for %s: missed mutants %s; false alarms on benign variants %s' % (prop, missed, alarms))
    return cov
