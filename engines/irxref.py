"""Independent second derivation of the call facts from LLVM IR (DESIGN 2.4, thorough tier).

Every library unit is compiled to textual IR with the real flags (clang++ -O0 -S -emit-llvm; nothing is
executed), the direct call/invoke instructions of every function are collected and demangled, and
compared with the callees blfscan resolved on the AST:

  * every direct call the compiler emits to a function of the repository must be a callee the AST export
    knows for that function (constructor/destructor variants normalised; implicit destructor calls and
    implicitly defined special members are the only accepted extras) - otherwise the extractor has a
    blind spot (an implicit call, an operator, an instantiation) and rules built on the call graph
    (who-may-call, thread roles, effects) cannot be trusted: AnalysisBroken;
  * every non-virtual in-repository callee of the AST must appear in the IR of that function.
"""
import json
import os
import re
import shutil
import subprocess
import tempfile
from concurrent.futures import ThreadPoolExecutor

import facts
from facts import AnalysisBroken, walk

DEFINE = re.compile(r'^define\s.*?@("?)([A-Za-z0-9_.$]+)\1\(')
CALL = re.compile(r'\b(?:call|invoke)\b[^@\n]*?@("?)([A-Za-z0-9_.$]+)\1\(')


def _emit(args):
    cmd, src, out = args
    r = subprocess.run(cmd, capture_output=True, text=True)
    return src, r.returncode, r.stderr[-800:]


def build_ir(F, outdir):
    cache = getattr(F, 'cache_dir', None)
    db = json.load(open(os.path.join(cache, 'cfg', 'compile_commands.json')))
    jobs = []
    for e in db:
        parts = e['command'].split()
        keep = []
        skip = 0
        for i, p in enumerate(parts[1:]):
            if skip:
                skip -= 1
                continue
            if p in ('-o', '-MT', '-MF'):
                skip = 1
                continue
            if p in ('-c', '-MD') or p == e['file'] or p.startswith('-Wl,'):
                continue
            keep.append(p)
        out = os.path.join(outdir, os.path.basename(e['file'])[:-4] + '.ll')
        cmd = ['clang++'] + keep + ['-O0', '-Xclang', '-disable-O0-optnone', '-S', '-emit-llvm', '-w', '-o', out, e['file']]
        jobs.append((cmd, e['file'], out))
    with ThreadPoolExecutor(max_workers=min(16, os.cpu_count() or 4)) as ex:
        for src, rc, err in ex.map(_emit, jobs):
            if rc != 0:
                raise AnalysisBroken('clang++ -emit-llvm failed on %s: %s' % (src, err))
    return [j[2] for j in jobs]


def parse_ir(files):
    """mangled function -> set of mangled direct callees"""
    calls = {}
    for f in files:
        cur = None
        with open(f) as fh:
            for line in fh:
                if line.startswith('define'):
                    m = DEFINE.match(line)
                    cur = m.group(2) if m else None
                    if cur:
                        calls.setdefault(cur, set())
                elif line.startswith('}'):
                    cur = None
                elif cur and ('call' in line or 'invoke' in line):
                    for m in CALL.finditer(line):
                        calls[cur].add(m.group(2))
    return calls


def demangle(names):
    names = sorted(names)
    r = subprocess.run(['llvm-cxxfilt-14'], input='\n'.join(names), capture_output=True, text=True)
    if r.returncode != 0:
        raise AnalysisBroken('llvm-cxxfilt-14 failed')
    return dict(zip(names, r.stdout.split('\n')))


def base_name(dem):
    """'Vector::BLF::File::close()' -> 'Vector::BLF::File::close' (parameters, cv and template args of the function dropped)"""
    s = dem
    # cut the parameter list: the first '(' at template depth 0
    depth = 0
    for i, ch in enumerate(s):
        if ch == '<':
            depth += 1
        elif ch == '>':
            depth -= 1
        elif ch == '(' and depth == 0:
            s = s[:i]
            break
    s = re.sub(r'^(virtual thunk to |non-virtual thunk to )', '', s)
    return s.strip()


def run(F):
    d = tempfile.mkdtemp(prefix='vblf_ir_', dir=os.environ.get('TMPDIR', '/tmp'))
    try:
        files = build_ir(F, d)
        ir = parse_ir(files)
        names = set(ir)
        for v in ir.values():
            names |= v
        dm = demangle(names)
        # IR: function base name -> set of in-repo callee base names
        irg = {}
        for f, cs in ir.items():
            if 'thunk to ' in dm[f]:
                continue   # this-adjusting thunks only forward to the real function
            bn = base_name(dm[f])
            if not bn.startswith('Vector::BLF::'):
                continue
            tgt = irg.setdefault(bn, set())
            for c in cs:
                cb = base_name(dm[c])
                if cb.startswith('Vector::BLF::'):
                    tgt.add(cb)
        # AST
        astg = {}
        virt = {}
        for name, fns in F.functions.items():
            for fn in fns:
                a = astg.setdefault(_norm_ast(name), set())
                vv = virt.setdefault(_norm_ast(name), set())
                nodes = list(walk(fn['body']))
                for i in fn.get('inits', []):
                    if i.get('init') is not None:
                        nodes += list(walk(i['init']))
                if fn.get('kind') == 'ctor':
                    # default member initialisers run inside every constructor
                    for fld in F.records.get(fn.get('class'), {}).get('fields', []):
                        if isinstance(fld.get('init'), dict):
                            nodes += list(walk(fld['init']))
                for n in nodes:
                    if n.get('k') in ('Call', 'Construct') and n.get('calleeInRoot') and n.get('callee') and '(anonymous class)' not in n['callee']:
                        (vv if n.get('virt') else a).add(_norm_ast(n['callee']))
                    if n.get('k') == 'New' and n.get('rec', '').startswith('Vector::BLF::'):
                        a.add(n['rec'] + '::' + n['rec'].split('::')[-1])
        problems = []
        compared = 0
        edges = 0
        for fn, callees in sorted(astg.items()):
            if fn not in irg:
                continue   # inline function never emitted in any unit (unused)
            compared += 1
            irc = irg[fn]
            for c in sorted(callees):
                edges += 1
                if c not in irc and not _is_trivial(F, c):
                    problems.append('AST callee not in IR: %s -> %s' % (fn, c))
            for c in sorted(irc):
                if c in callees or c in virt.get(fn, ()):   # devirtualised calls on final classes are direct in IR
                    continue
                if _is_dtor(c) or _implicit_special(F, c):
                    continue
                # a base-class / member codec call emitted for a virtual call that clang devirtualised
                if any(c.rsplit('::', 1)[-1] == v.rsplit('::', 1)[-1] for v in virt.get(fn, ())):
                    continue
                problems.append('IR call unknown to the AST export: %s -> %s' % (fn, c))
        if compared < 300:
            raise AnalysisBroken('IR cross-check compared only %d functions' % compared)
        if problems:
            raise AnalysisBroken('call facts of blfscan and of the LLVM IR disagree (%d): %s' % (len(problems), '; '.join(problems[:6])))
        return {'ir_crosscheck': {'units': len(files), 'functions_compared': compared, 'ast_edges_confirmed': edges,
                                  'ir_functions': len(irg), 'disagreements': 0}}
    finally:
        shutil.rmtree(d, ignore_errors=True)


def _norm_ast(q):
    return q


def _is_dtor(c):
    return '::~' in c


def _implicit_special(F, c):
    """implicitly defined constructors / assignment operators of repository classes (no AST body to export)"""
    cls, _, m = c.rpartition('::')
    short = cls.rsplit('::', 1)[-1].split('<')[0]
    if m == short or m == 'operator=':
        return not any(f.get('kind') in ('ctor', 'method') for f in F.functions.get(c, []))
    return False


def _is_trivial(F, c):
    # constexpr / trivially inlinable callees that the compiler folds even at -O0 do not exist in this code base
    return False


def werror_switch(F):
    """compiler-decided cross-check of D3: File.cpp compiles with -Werror=switch (every enumerator handled, no default needed)"""
    cache = getattr(F, 'cache_dir', None)
    db = json.load(open(os.path.join(cache, 'cfg', 'compile_commands.json')))
    ent = [e for e in db if e['file'].endswith('/File.cpp')]
    if not ent:
        raise AnalysisBroken('File.cpp not in the compile database')
    parts = ent[0]['command'].split()
    keep = []
    skip = 0
    for p_ in parts[1:]:
        if skip:
            skip -= 1
            continue
        if p_ in ('-o', '-MT', '-MF'):
            skip = 1
            continue
        if p_ in ('-c', '-MD') or p_ == ent[0]['file'] or p_.startswith('-Wl,'):
            continue
        keep.append(p_)
    r = subprocess.run(['clang++'] + keep + ['-fsyntax-only', '-Wswitch', '-Werror=switch', ent[0]['file']], capture_output=True, text=True)
    if r.returncode != 0:
        raise AnalysisBroken('D3 disagrees with the compiler: clang++ -Werror=switch rejects File.cpp: ' + r.stderr[-600:])
    return {'compiler_crosscheck': {'cmd': 'clang++ -fsyntax-only -Werror=switch File.cpp', 'result': 'accepted'}}
