"""property -> rule runners.  Each runner(F, rep, tier) adds obligations to the report."""
import rules_layout
from rules_layout import LayoutRules, object_classes

FILESTAT = 'Vector::BLF::FileStatistics'

_layout_cache = {}


def _LR(F, rep):
    return LayoutRules(F, rep)


def run_layout(F, rep, tier, write_rules=(), read_rules=(), roundtrip=False, reencode=False, extra_classes=()):
    LR = _LR(F, rep)
    classes = object_classes(F) + list(extra_classes)
    for c in classes:
        for fn in ('read', 'write'):
            for f in F.method(c, fn):
                rep.saw_function(f['name'])
        if write_rules:
            LR.check_write_side(c, set(write_rules))
        if read_rules:
            LR.check_read_side(c, set(read_rules))
        if roundtrip:
            LR.check_roundtrip(c)
        if reencode:
            LR.check_reencode(c)
    rep.notes.append('codec classes analysed: %d' % len(classes))


def C01(F, rep, tier):
    run_layout(F, rep, tier, write_rules=('L6',), roundtrip=True, extra_classes=(FILESTAT,))


def C02(F, rep, tier):
    run_layout(F, rep, tier, read_rules=('L7',), reencode=True, extra_classes=(FILESTAT,))


def C03(F, rep, tier):
    run_layout(F, rep, tier, write_rules=('L3', 'L4', 'L5', 'L6', 'L8', 'B2'), roundtrip=True)


PROPS = {
    'C01': dict(run=C01, level='other'),
    'C02': dict(run=C02, level='other'),
    'C03': dict(run=C03, level='other'),
}
