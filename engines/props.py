"""property -> rule runners.  Each runner(F, rep, tier) adds obligations to the report."""
import rules_layout
from rules_layout import LayoutRules, object_classes
import flow
import roles
import rules_pipeline as RP
import rules_file as RF
import rules_factory as RD
from facts import AnalysisBroken, fmt_path
from core import short

FILESTAT = 'Vector::BLF::FileStatistics'
LOGCONT = 'Vector::BLF::LogContainer'
FILE = 'Vector::BLF::File'


class Ctx:
    """shared analyses, built once per run"""
    def __init__(self, F):
        self.F = F
        RP.set_facts(F)
        self._FL = None
        self._R = None
        self._ws = None

    @property
    def FL(self):
        if self._FL is None:
            self._FL = flow.Flow(self.F)
        return self._FL

    @property
    def R(self):
        if self._R is None:
            self._R = roles.Roles(self.F, self.FL)
        return self._R

    def ws(self, rep=None):
        if self._ws is None:
            self._ws = RP.wait_sites(self.F, self.R)
        return self._ws


def object_classes_cached(F):
    return set(object_classes(F))


def run_layout(F, rep, write_rules=(), read_rules=(), roundtrip=False, reencode=False, extra_classes=(), only=None):
    LR = LayoutRules(F, rep)
    classes = (object_classes(F) if only is None else list(only)) + list(extra_classes)
    for c in classes:
        for fn in ('read', 'write', 'calculateObjectSize', 'calculateHeaderSize'):
            for f in F.method(c, fn):
                rep.saw_function(f['name'])
        if write_rules:
            LR.check_write_side(c, set(write_rules))
        if read_rules:
            LR.check_read_side(c, set(read_rules))
        if roundtrip:
            LR.check_roundtrip(c)
        if reencode:
            LR.check_reencode(c)
    rep.notes.append('codec classes analysed: %d' % len(classes))
    return LR


# ---------------------------------------------------------------------------------------------
def C01(F, rep, tier, cx):
    """L1/L2: read() interpreted over the symbolic output of write() for every class and guard path; L6 length
    pre-processing; L8 size function well-founded; D1 factory round trip; C1 commit completeness; S3 decode starts at the object start Also: S2 the factory is asked unconditionally and nothing else skips; P4/P6 nothing unread is dropped or rewound into; R5/B7 the stream stores every byte it advances over and copies from the container that holds the position; K12 write sessions are drained; A1 the API passes objects and state through; F3p payload provenance. Round 6: K2/T2 no mutual wait on the stream, K7 one role per side, F8 in-order writes."""
    run_layout(F, rep, write_rules=('L6', 'L8'), roundtrip=True, extra_classes=(FILESTAT,))
    RD.D123(F, rep)
    RF.C1(F, rep, cx.FL)
    RF.S2S3(F, rep, cx.FL, {'S3', 'S2'})
    RF.F3p(F, rep, cx.FL)   # container payload is what its method field says (compress <-> uncompress agree)
    RF.P4(F, rep, cx.FL)    # the stream never discards bytes that have not been read
    RF.R5(F, rep, cx.FL)           # ... and never moves the put position over bytes it does not hold
    RF.B7(F, rep)                  # ... and copies from the container that holds the current position (not a stale one)
    RP.P6(F, rep, cx.R, cx.FL)   # ... and the decoder never rewinds into bytes it let go
    RP.P9(F, rep, cx.R)          # ... nor does a read release them behind the caller's back
    RF.K12(F, rep, cx.R, cx.FL)  # every object handed to write() reaches the file: the workers drain, close() does not cut them short
    RF.A1(F, rep, cx.FL)           # the API passes the queue's objects and its end-of-file state through unchanged
    ws = RP.K2(F, rep, cx.R)       # "returned complete": no wait that gives up, and both sides of the stream cannot end up waiting for each other
    cx._ws = ws
    RP.T2(F, rep, cx.R, cx.FL, ws)
    RP.K7(F, rep, cx.R, ws)        # one role per side of a stage: a second thread that drops or delivers data breaks the reader's step-back
    RF.F8(F, rep, cx.FL)           # the pieces of a container reach the file in the order they were written
    RF.M1(F, rep, cx.R)            # whatever companion flags the open mode carries, the session gets its workers (round 7)


def C02(F, rep, tier, cx):
    """L2r: write() interpreted from the state read() leaves, for every reader path over arbitrary input; L7 nothing dropped L9 every member that decides a decoded shape is unsigned; L7 also: no skip of a length taken from the image; findings are keyed by reader-path condition. Round 6: a recomputed length equals the length read unless the decoder clamped the count."""
    run_layout(F, rep, read_rules=('L7', 'L9'), reencode=True, extra_classes=(FILESTAT,))


def C03(F, rep, tier, cx):
    """L3 bytes emitted == calculateObjectSize(); L4 header bytes == calculateHeaderSize(); L5 pad set and pairing; L6 lengths derived
    from containers; L8 well-founded size function; B2 write sources bounded; L1 decoding consumes exactly what was emitted Round 6: an encoder throws before its first byte or not at all (torn object)."""
    run_layout(F, rep, write_rules=('L3', 'L4', 'L5', 'L6', 'L8', 'B2'), roundtrip=True)
    RF.R5(F, rep, cx.FL)   # the padding (and every other byte) an object emits is stored by the stream: the put position moves only over stored bytes


FORMAT_LOGCONTAINER = [('signature', 4), ('headerSize', 2), ('headerVersion', 2), ('objectSize', 4), ('objectType', 4),
                       ('compressionMethod', 2), (None, 2), (None, 4), ('uncompressedFileSize', 4), (None, 4), ('compressedFile', None)]
FORMAT_FILESTATISTICS = [('signature', 4), ('statisticsSize', 4), ('apiNumber', 4), ('applicationId', 1), ('compressionLevel', 1),
                         ('applicationMajor', 1), ('applicationMinor', 1), ('fileSize', 8), ('uncompressedFileSize', 8), ('objectCount', 4),
                         ('applicationBuild', 4), ('measurementStartTime', 16), ('lastObjectTime', 16), ('restorePointsOffset', 8), (None, 64)]


def format_table(F, rep, LR, cls, table, rule, total=None):
    I, paths = LR.write_paths(cls)
    paths = [p for p in paths if not p.thrown]
    rep.count(rule)
    site = LR.fnsite(cls, 'write')
    if len(paths) != 1:
        rep.ob(rule, short(cls) + '|layout', False, site, '%s::write has %d paths; the format has one layout' % (short(cls), len(paths)))
        return
    items = [it for it in paths[0].items]
    pad = rules_layout.trailing_pad(items, paths[0].menv.get(('objectSize',)))
    if pad is not None:
        items = items[:-1]
    problems = []
    if len(items) != len(table):
        problems.append('%d items emitted, the format has %d' % (len(items), len(table)))
    for i, (it, (name, width)) in enumerate(zip(items, table)):
        got_name = it.path[-1] if it.path else None
        if name is not None and got_name != name:
            problems.append('position %d: format has %s, code emits %s' % (i, name, got_name))
        if width is not None and not (it.width.is_const() and it.width.c == width):
            problems.append('position %d (%s): format width %d, code emits %r' % (i, name or 'reserved', width, it.width))
        if width is None and it.kind != 'bytes':
            problems.append('position %d: format has a variable payload, code emits %s' % (i, it.desc()))
    if total is not None:
        tot = rules_layout.total(items)
        if not (tot.is_const() and tot.c == total):
            problems.append('total %r bytes, the format has %d' % (tot, total))
    rep.ob(rule, short(cls) + '|layout', not problems, site,
           '%s::write emits exactly the format layout (%d items%s%s)' % (short(cls), len(table), ', %d bytes' % total if total else '',
                                                                        ', padded to 4' if pad is not None else '') if not problems else
           '%s::write deviates from the file format: %s' % (short(cls), '; '.join(problems)), nontrivial=True)


def C04(F, rep, tier, cx):
    """F1/F2 container and statistics layouts equal the format tables; L3/L4/L5 on LogContainer; F3 method/level flow; F4 cut size flow;
    F5/F6 who may write the compressed file / the uncompressed stream; E2 compress2 result checked Also: L3 for every object class (the payload can be walked by declared sizes); F3p payload provenance; F4 setter identity; G1; R1/R4/R5 the stream completes and stores every chunked request; K2/K2a/K12 no worker gives up early. Round 6: F8 pieces reach the file in call order, K9c level read behind the blocking read."""
    LR = run_layout(F, rep, write_rules=('L3', 'L4', 'L5', 'L6', 'B2'), roundtrip=True, only=[LOGCONT])
    # the payload is a sequence of objects an independent decoder can walk by the declared sizes: every class emits what its header declares
    run_layout(F, rep, write_rules=('L3',))
    format_table(F, rep, LR, LOGCONT, FORMAT_LOGCONTAINER, 'F1')
    format_table(F, rep, LR, FILESTAT, FORMAT_FILESTATISTICS, 'F2', total=144)
    stat_size(F, rep)
    RF.F3F4(F, rep, cx.FL)
    RF.F4s(F, rep)
    RF.F7(F, rep)
    RF.F8(F, rep, cx.FL)   # the pieces of a container reach the file in the order they were written
    RF.K9c(F, rep, cx.R, cx.FL)   # the level / restore-point setting in force is the one the application set before its first write()
    RF.F3p(F, rep, cx.FL)
    RF.F5F6(F, rep, cx.R)
    RF.G1(F, rep)   # no state shared between File instances (a static work buffer corrupts concurrent sessions)
    RF.E2B3(F, rep, cx.FL, {'E2'})
    # "identical for all container sizes": the stream between encoder and compressor completes every chunked request
    RF.R1(F, rep)
    RF.R4(F, rep)
    RF.R5(F, rep, cx.FL)
    # "exactly the objects written": no worker gives up early (a timed wait that is treated as a wake-up, a worker stopped by close())
    RP.K2(F, rep, cx.R)
    RF.K12(F, rep, cx.R, cx.FL)
    RF.K11(F, rep, cx.R, cx.FL)   # ... nor decides to stop on a snapshot of the other side's position


def stat_size(F, rep):
    rep.count('F2')
    r = F.rec(FILESTAT)
    f = [x for x in r['fields'] if x['name'] == 'statisticsSize']
    v = None
    if f and isinstance(f[0].get('init'), dict):
        for n in __import__('facts').walk(f[0]['init']):
            if 'v' in n:
                v = n['v']
    from codec import Interp
    outs = [o for o in Interp(F, FILESTAT, 'size').run('calculateStatisticsSize') if not o.infeasible]
    calc = outs[0].ret if len(outs) == 1 else None
    if f and isinstance(f[0].get('init'), dict) and calc is not None and calc.is_const():
        if any(n.get('k') == 'Call' and n.get('fn') == 'calculateStatisticsSize' for n in __import__('facts').walk(f[0]['init'])):
            v = calc.c   # initialised from the size function itself
    ok = v == 144 and calc is not None and calc.is_const() and calc.c == 144
    rep.ob('F2', 'FileStatistics|statisticsSize', ok, '%s:%s' % (F.rel(r['file']), f[0]['line'] if f else r['line']),
           'statisticsSize is initialised to %s and calculateStatisticsSize() folds to %r (format: 144)' % (v, calc), nontrivial=True)


def C05(F, rep, tier, cx):
    """H1 counters bumped exactly once per committed container/object on every path; H2 close() ordering; F2 144-byte statistics layout,
    read/write symmetric Also: H1 no stray bumps, H3 owned header fields, H4 counter widths, H2 open clause (one += statisticsSize per opening path, already-open path untouched) and restore-point clause. Round 6: H1 a container taken from the file is handed on and counted; K2, K12."""
    RF.H1(F, rep, cx.FL)
    RF.H2(F, rep, cx.R, cx.FL)
    RF.H3(F, rep)
    RF.H4(F, rep)
    LR = run_layout(F, rep, roundtrip=True, only=[], extra_classes=(FILESTAT,))
    format_table(F, rep, LR, FILESTAT, FORMAT_FILESTATISTICS, 'F2', total=144)
    stat_size(F, rep)
    RP.K2(F, rep, cx.R)            # "counts every object": a worker that gives up after a timed wait stops counting (and writing) while the application goes on
    RF.K12(F, rep, cx.R, cx.FL)    # ... and so does one that close() stops, or that stops on its output side


def C06(F, rep, tier, cx):
    """K2 wait form; K3 notify completeness (role-aware); K4 lock order; K5 end-of-stream on every worker exit a valid session can take;
    K6 release-before-join; K10 no exception leaves a thread body; T2 request size <= admission threshold (conditional lemma) Also: K2a bare disjuncts, K2s sibling waits, K2u signed fill level (fill-level protocol), T2 hand-off shape, P6 no rewind after a drop, R2 the end handling on every path of read(), S1 the re-synchronisation loop leaves at end-of-file. Round 6: M1 mode tests on the in/out bits only, K12 workers end on their input, K15 abort is final, K7."""
    RP.K1(F, rep, cx.R)   # carries the K4|self obligations; K1 itself is C11's
    rep.obs = [o for o in rep.obs if o['rule'] != 'K1']
    rep.counts.pop('K1', None)
    ws = RP.K2(F, rep, cx.R)
    cx._ws = ws
    RP.K2s(F, rep, cx.R, ws)
    RP.K2u(F, rep, cx.R, ws)
    RP.K3(F, rep, cx.R, cx.FL, ws)
    RP.K4(F, rep, cx.R, cx.FL)
    RP.K5(F, rep, cx.R, cx.FL, ('BLF',), 'valid-session')
    RP.K6(F, rep, cx.R, cx.FL, ws)
    RP.K10(F, rep, cx.R, cx.FL)
    RP.T2(F, rep, cx.R, cx.FL, ws)
    RP.P6(F, rep, cx.R, cx.FL)   # a rewind into released data makes the decoder spin on an empty, 'good' stream
    RF.R2(F, rep, cx.FL)         # ... and so does a read() that returns short without reporting the end
    RP.K5v(F, rep, cx.R)         # the declared end is the put position of the stage, not a count kept on the side
    RF.S1e(F, rep, cx.FL)        # the re-synchronisation loop ends at end-of-file on every alternative (else read() spins in a worker)
    RF.M1(F, rep, cx.R)          # a session opened with in | binary has its workers started and joined like one opened with in
    RF.K12(F, rep, cx.R, cx.FL)  # a write-mode worker stops only when its input has ended (else its producer blocks on a buffer nobody empties)
    RP.K15(F, rep, cx.R)         # abort is final: a released waiter does not re-arm the stage
    RP.K7(F, rep, cx.R, ws)      # one role per side of a stage: data released by a second thread is gone when the reader steps back (it then spins)
    RF.T1(F, rep, cx.FL)         # the decode loop advances: a guard that admits a size below the header lets read() spin on one object (round 7)


def C07(F, rep, tier, cx):
    """K7 single producer / single consumer per stage and mode; K8 no transfer after end-of-stream; Q2 eof only on the empty branch;
    K1 all stage state under the stage mutex Also: K2/K2a, K11 no decision on a racy snapshot, K12 drained write sessions, K2u, T2, O1, S4 seekg independent of the put position. Round 6: G1, K13."""
    ws = RP.K2(F, rep, cx.R)   # a timed or bare wait makes the outcome depend on the schedule
    cx._ws = ws
    RP.K7(F, rep, cx.R, ws)
    RP.K8(F, rep, cx.R, cx.FL)
    RF.K11(F, rep, cx.R, cx.FL)
    RF.K12(F, rep, cx.R, cx.FL)
    RP.K2u(F, rep, cx.R, ws)
    RP.T2(F, rep, cx.R, cx.FL, ws)   # whether both sides end up waiting for each other depends on who runs first
    RF.O1O2(F, rep, cx.FL, [RF.U2Q, RF.Q2U, FILE + '::read', FILE + '::write'], rules=('O1',))   # a use after the hand-over races with the new owner
    RP.Q(F, rep, cx.R, cx.FL)
    rep.obs = [o for o in rep.obs if o['rule'] not in ('Q1', 'Q3')]
    rep.counts.pop('Q1', None)
    rep.counts.pop('Q3', None)
    RP.K1(F, rep, cx.R)
    rep.obs = [o for o in rep.obs if o['rule'] != 'K4']
    rep.counts.pop('K4', None)
    RF.S4(F, rep)   # the get position after a seek is a function of the request and the declared end, never of how far the producer got
    RF.G1(F, rep)           # nothing is shared between the sessions of two File objects (a static peek header makes each depend on the other's timing)
    RF.K13(F, rep, cx.R)    # no worker aborts a stage: where the other worker is cut off would depend on how far it got
    RP.K6(F, rep, cx.R, cx.FL, ws)   # close() releases every waiter before it joins: otherwise whether it returns depends on where the worker was (round 7)


def C08(F, rep, tier, cx):
    """E1 good()-check between every decode and the commit; E2 zlib result and size checked; K5 the worker that hits the short read
    declares end of stream on whatever way it leaves Also: E4 sticky failure (stream and compressed file), E5 no decision on header totals, E6 padding stepped over not read, O3 workers started / joined. Round 6: S1e, P9, K7."""
    RF.E1(F, rep, cx.FL)
    RF.E2B3(F, rep, cx.FL, {'E2'})
    RF.E4(F, rep)
    RP.K5(F, rep, cx.R, cx.FL, ('BLF',), 'library-exception')
    run_layout(F, rep, read_rules=('E6',), extra_classes=(LOGCONT,) if LOGCONT not in object_classes_cached(F) else ())
    RF.E5(F, rep, cx.R)
    RP.K5v(F, rep, cx.R)
    # the two decoders that work on the compressed file itself seek only over alignment padding: any other seek behind a (possibly short) read
    # clears eofbit of the std::fstream before the state is looked at, and the signature search that leaves only through eof() spins
    run_layout(F, rep, read_rules=('L7',), only=[LOGCONT, FILESTAT])
    rep.obs = [o for o in rep.obs if o['rule'] != 'L7' or '|skip@' in o['key']]
    RF.O3(F, rep, cx.R, cx.FL)   # a file cut inside its header still gets workers that declare the end (open|workers-started); close() returns
    rep.obs = [o for o in rep.obs if o['rule'] != 'O3' or o['key'].startswith('O3|open|workers') or o['key'].startswith('O3|join')]
    RF.S1e(F, rep, cx.FL)        # a file cut inside a signature: the search notices the end on every alternative
    RP.P9(F, rep, cx.R)          # the header peek and the signature search step back: what they passed must still be there
    RP.K7(F, rep, cx.R, cx.ws()) # ... and nobody but the decoding thread releases data on the get side


def C09(F, rep, tier, cx):
    """S1 resynchronisation table implied by the signature constant; S2 unknown-type path advances by the declared size from the object
    start and returns normally; S3 decode starts at the object start; S4 the stream's seekg is relative, bounded only by the declared end Also: S1e, K2s/K2u, R5 containers delivered while the reader is ahead are stored, T1 the stream continues at the declared end, S2 reasons to throw / skip. Round 6: B7, P9, K7; S4 unconditional clamp."""
    RF.S1(F, rep)
    RF.S1e(F, rep, cx.FL)
    RF.S2S3(F, rep, cx.FL, {'S2', 'S3'})
    RF.S4(F, rep)
    ws = cx.ws()
    RP.K2s(F, rep, cx.R, ws)   # skipping an unknown object can put the get position ahead of the put position:
    RP.K2u(F, rep, cx.R, ws)   # the producer's admission test must survive that, or everything behind the object is lost
    RF.R5(F, rep, cx.FL)       # ... and the containers delivered while the get position is ahead must still be stored
    RF.T1(F, rep, cx.FL)       # after an object the stream continues at its declared end - what follows (fill bytes, the next signature) is scanned, not swallowed
    RF.B7(F, rep)              # the signature search steps back by 1..3 bytes: the copy that follows works on the container that holds that position
    RP.P9(F, rep, cx.R)        # ... and what it passed is still buffered
    RP.K7(F, rep, cx.R, ws)    # ... because only the searching thread itself releases data on its side


def C10(F, rep, tier, cx):
    """B1 every read sink bounded by its buffer; B3 container size invariant; B4 (ptr,len) pairs; B5 raw I/O on trivially copyable types;
    K10 no exception escapes a thread; K5 end of stream on all worker exits incl. catch(...); T1 progress of the decode loop; DN null checks Also: B7 incl. fresh lookup, S1e, K2s/K2u, K6, O5, E1; T1 with both re-positioning shapes. Round 6: T1 narrowing of the step back, O6 no worker opens/closes the file, K7, P9."""
    run_layout(F, rep, read_rules=('B1', 'B5'), extra_classes=(FILESTAT,))
    RF.E2B3(F, rep, cx.FL, {'B3', 'B4'})
    RP.K10(F, rep, cx.R, cx.FL)
    RP.K5(F, rep, cx.R, cx.FL, ('BLF', 'alloc', 'other'), 'all-edges')
    RF.T1(F, rep, cx.FL)
    RF.DN(F, rep, cx.FL)
    RF.B7(F, rep)
    RF.S1e(F, rep, cx.FL)                 # the signature search ends at end of input
    ws = cx.ws()
    RP.K2s(F, rep, cx.R, ws)              # hostile sizes put the get position ahead of the put position:
    RP.K2u(F, rep, cx.R, ws)              # the producers' admission test must survive a negative fill level
    RP.K6(F, rep, cx.R, cx.FL, ws)        # a worker that stopped on a corrupt object must not leave close() waiting for the other one
    RF.O5(F, rep)                         # no cached pointer into storage that is released concurrently
    RF.E1(F, rep, cx.FL)                  # a short read is noticed before its bytes are used (otherwise the signature search spins on a dead stream)
    RP.K5v(F, rep, cx.R)                  # a rejected container must not leave a declared end beyond the delivered data
    RF.O6(F, rep, cx.R)                   # a worker that dies on hostile input (bad_alloc) must not take the session's "open" state with it
    RP.K7(F, rep, cx.R, ws)               # data is released on the get side by the decoding thread only (else its step-back lands in freed storage)
    RP.P9(F, rep, cx.R)
    RF.F3F4(F, rep, cx.FL)                # the compression thread reads into a buffer that was sized for exactly that request
    rep.obs = [o for o in rep.obs if o['rule'] != 'F3']
    rep.counts.pop('F3', None)


def C11(F, rep, tier, cx):
    """K1 lockset on the three stage classes; K9 File fields touched by workers are atomic / stages / phase-exclusive; O1 no use after
    an ownership sink Also: G1 no shared function-local state, O5 no non-owning member into released storage, smart owners. Round 6: O7 fresh container per hand-over, K9c configuration read behind a hand-over."""
    RP.K1(F, rep, cx.R)
    rep.obs = [o for o in rep.obs if o['rule'] != 'K4']
    rep.counts.pop('K4', None)
    RF.K9(F, rep, cx.R, cx.FL)
    RF.K9c(F, rep, cx.R, cx.FL)   # the public configuration members are read by a worker only behind a hand-over that orders the application's assignment first
    RF.O7(F, rep, cx.FL)          # what is handed to the next stage is a fresh object, not one the worker will write to again
    RF.G1(F, rep)
    RF.O5(F, rep)
    RF.O1O2(F, rep, cx.FL, [RF.U2Q, RF.Q2U, FILE + '::read', FILE + '::write'], rules=('O1',))


def C12(F, rep, tier, cx):
    """P1 finite capacities configured; P2 every insertion preceded by a back-pressure wait; P3 dropOldData on every committing path Also: P4, P5, P6 no rewind after a drop, P7 the drop releases every consumed container, P8 what is held against the capacity, K13 abort only at shutdown. Round 6: B3 a container occupies what it declares, K7."""
    RP.P(F, rep, cx.R, cx.FL, cx.ws())
    RP.P6(F, rep, cx.R, cx.FL)
    RP.P8(F, rep, cx.R, cx.ws())
    RP.P9(F, rep, cx.R)
    RP.K14(F, rep, cx.R, cx.FL)
    RF.K13(F, rep, cx.R)
    RF.P4(F, rep, cx.FL)
    RF.P5(F, rep, cx.FL)
    RF.E2B3(F, rep, cx.FL, {'B3'})   # what a container occupies in memory is what it declares (the capacity test counts declared bytes)
    RP.K7(F, rep, cx.R, cx.ws())     # one releasing role per side


def C13(F, rep, tier, cx):
    """O2 every owned pointer transferred/deleted/returned exactly once on every path (incl. the queue's own write); O3 thread
    start/join pairing, open/close guards, ~File -> close; O4 ~ObjectQueue drains; K6 every joined worker's waits are released Also: smart owners; O3 mode recorded late / workers started / idle open paths / ~File on every path; K12; A1. Round 6: M1, O6, K12 ends-on-input."""
    qwrite = cx.R.stages['m_readWriteQueue'] + '::write'
    RF.O1O2(F, rep, cx.FL, [RF.U2Q, RF.Q2U, FILE + '::read', FILE + '::write', qwrite], rules=('O2',))
    RF.O3(F, rep, cx.R, cx.FL)
    RF.O4(F, rep, cx.R, cx.FL)
    RP.K6(F, rep, cx.R, cx.FL, cx.ws())   # "sessions shut down cleanly": close() must be able to return (shared with C06)
    RF.K12(F, rep, cx.R, cx.FL)           # ... and a write session is drained before it
    RF.A1(F, rep, cx.FL)                          # good()/eof() report the queue's state, read() hands the caller what the queue returned
    RF.M1(F, rep, cx.R)                           # close() recognises the session open() started, whatever companion flags the mode carries
    RF.O6(F, rep, cx.R)                           # ... and finds it still open: no worker closes the file
    RF.S1e(F, rep, cx.FL)                         # a worker caught by close() inside the signature search leaves it on the failed stream (fix 4842e88)
    RF.R2(F, rep, cx.FL)                          # ... and an aborted read reports eof|fail, which is what ends that search (round 7)
    RP.T2(F, rep, cx.R, cx.FL, cx.ws())           # close() of a write session joins workers that can always make progress (round 7)


def C14(F, rep, tier, cx):
    """D4 every serialised scalar has an initialiser; B6 every write source is object state; Z1 skipp writes zeroes Also: D6, G1 (incl. const statics from run-time state), K11, K2/K2a, B5/B2, D4 over File and its stages. Round 6: K9c, R5, F8."""
    RD.D4(F, rep)
    RD.D6(F, rep)
    run_layout(F, rep, write_rules=('B6', 'B5', 'B2'), extra_classes=(FILESTAT,))
    RF.Z1(F, rep)
    RF.G1(F, rep)
    RF.K11(F, rep, cx.R, cx.FL)   # "does not depend on timing": no worker decision on a racy snapshot
    RP.K2(F, rep, cx.R)           # ... and no wait that gives up after a while
    RF.F7(F, rep)                 # ... nor on what an earlier file at the same path held
    RF.K9c(F, rep, cx.R, cx.FL)   # ... nor on whether the compression thread fetched the level before the application set it
    RF.R5(F, rep, cx.FL)          # ... nor on bytes the put position stepped over without writing them
    RF.F8(F, rep, cx.FL)          # ... and the pieces reach the file in call order


def C15(F, rep, tier, cx):
    """structural clauses only (the behaviour over operation histories is arithmetic and NOT decided): B7 copies stay inside the container
    that holds the position; R1 position / pointer / remaining count / get count advance by the bytes copied; R2 short read at the
    declared end, end follows the put position; R3 appended containers never overlap the partly filled tail; B3 buffer and size field change together (nextLogContainer, new containers);
    P5 appended containers chain their filePosition; P4 dropOldData pops only what lies behind the get position; S4 seekg is relative and
    bounded by the declared end only; E4 the failure state is sticky; K1 all of it under the stream's mutex Round 6: S4 clamp for every offset, R3 end-of-last only where nothing covers the put position."""
    RF.B7(F, rep)
    RF.R1(F, rep)
    RF.R2(F, rep, cx.FL)
    RF.R3(F, rep, cx.FL)
    RF.R4(F, rep)
    RF.R5(F, rep, cx.FL)
    RP.P9(F, rep, cx.R)
    RF.P5(F, rep, cx.FL)
    RF.P4(F, rep, cx.FL)
    RF.S4(F, rep)
    RF.E4(F, rep)
    RP.K1(F, rep, cx.R)
    rep.obs = [o for o in rep.obs if o['rule'] != 'K4' and not (o['rule'] == 'K1' and 'UncompressedFile' not in o['key'])]
    rep.counts.pop('K4', None)


def C16(F, rep, tier, cx):
    """Q1 FIFO discipline on the std::queue; Q2 null/eof only on the empty branch; K2/K3 abort atom and notify completeness for the queue Also: Q3 exact capacity atom, K2a bare disjuncts. Round 6: K15 abort is final."""
    RP.Q(F, rep, cx.R, cx.FL)
    qcls = {cx.R.stages['m_readWriteQueue']}
    ws = RP.K2(F, rep, cx.R, classes=qcls)
    RP.K3(F, rep, cx.R, cx.FL, ws, classes=qcls)
    RP.Q45(F, rep, cx.R, cx.FL, ws)
    RP.K15(F, rep, cx.R)   # "end-of-stream is final": once aborted, the queue never blocks a reader again
    rep.obs = [o for o in rep.obs if not (o['rule'] == 'K15' and 'ObjectQueue' not in o['key'])]


def C17(F, rep, tier, cx):
    """D1 factory <-> constructor agreement for all enumerators and classes; D2 reserved/unknown -> null; D3 exhaustive switch;
    D4 complete member initialisation; D5 code flows ctor -> field -> write Also: D6, D7 frozen numeric codes, G1, S2 the factory is asked unconditionally, A1 write() passes every object on. Round 6: D8 complete hand-written copies; guards / value helpers in front of the switch evaluated with unsigned arithmetic."""
    RD.D123(F, rep)
    RD.D5(F, rep, None)
    RD.D4(F, rep)
    RD.D6(F, rep)
    RF.G1(F, rep)   # the factory's input (the peeked header) is not shared between File instances / threads
    RD.D7(F, rep)   # the numbers themselves are the format
    RD.D8(F, rep)   # "carries a code ... is written under that code": a copy carries the code of what was copied
    RF.S2S3(F, rep, cx.FL, {'S2'})   # every object whose type the factory knows is built by it: the factory is asked unconditionally, nothing else skips
    RF.A1(F, rep, cx.FL)             # 'is written under that code': File::write() hands every object, whatever its code, to the queue


def advisory_unreachable(F):
    """thorough tier, C03/C10: codec-like structs that are not reachable from the File API (RestorePoints, RestorePoint, stand-alone
    sub-structs) are analysed with the same rules; their findings are reported as advisory and never fail the check"""
    import core
    objs = set(object_classes(F)) | set(rules_layout.HEADER_CLASSES) | {FILESTAT}
    rep = core.Report(F)
    LR = LayoutRules(F, rep)
    analysed = []
    for name, r in sorted(F.records.items()):
        if name in objs or r['abstract'] or not name.startswith('Vector::BLF::'):
            continue
        own = {m['name'] for m in r['methods']}
        if not {'read', 'write'} <= own or any(f['t'] == 'std::mutex' for f in r['fields']) or name == FILE:
            continue
        try:
            LR.check_write_side(name, {'B2', 'B6', 'L6'})
            LR.check_read_side(name, {'B1', 'B5', 'L7'})
            LR.check_roundtrip(name)
            analysed.append(short(name))
        except AnalysisBroken as ex:
            analysed.append(short(name) + ' (not a codec: ' + str(ex)[:60] + ')')
    return {'advisory_unreachable_code': {'classes': analysed, 'findings': [{'key': o['key'], 'site': o['site'], 'what': o['what'][:260]} for o in rep.failed()],
                                          'note': 'not reachable from the File API; reported for information, never fails the check'}}


ASSUME_THREADS = ['one application thread uses the File API', 'a session is opened with exactly one of in / out',
                  'user code does not touch public fields of File while a session is open',
                  'std::mutex / condition_variable operations do not throw']

PROPS = {
    'C01': dict(run=C01, level='other'),
    'C02': dict(run=C02, level='other'),
    'C03': dict(run=C03, level='other', advisory=True),
    'C04': dict(run=C04, ir_crosscheck=True, level='other', assumptions=ASSUME_THREADS),
    'C05': dict(run=C05, level='other'),
    'C06': dict(run=C06, ir_crosscheck=True, level='other', assumptions=ASSUME_THREADS),
    'C07': dict(run=C07, ir_crosscheck=True, level='other', assumptions=ASSUME_THREADS),
    'C08': dict(run=C08, level='other'),
    'C09': dict(run=C09, level='other'),
    'C10': dict(run=C10, ir_crosscheck=True, level='other', advisory=True),
    'C11': dict(run=C11, ir_crosscheck=True, level='other', assumptions=ASSUME_THREADS),
    'C12': dict(run=C12, level='other'),
    'C13': dict(run=C13, ir_crosscheck=True, level='other'),
    'C14': dict(run=C14, level='other'),
    'C15': dict(run=C15, level='other', assumptions=['only the structural clauses named in the evidence are decided; the FIFO behaviour over operation '
                                                       'histories (positions, counts, flags as numbers) is not']),
    'C16': dict(run=C16, level='other', assumptions=ASSUME_THREADS),
    'C17': dict(run=C17, level='proof'),
}
