"""Obligation bookkeeping shared by all rule engines and the driver."""
import json
import os
import time

VERIF = os.path.dirname(os.path.dirname(os.path.abspath(__file__)))


class Report:
    """collects obligations {rule, key, ok, site, what}; a rule may also declare how many
    instances it matched so that floors can be enforced (a rule matching fewer sites than
    were confirmed by hand is 'analysis broken', not a pass)."""

    def __init__(self, facts):
        self.F = facts
        self.obs = []
        self.counts = {}
        self.notes = []
        self.analysed = {'functions': set(), 'paths': 0, 'call_sites': 0}

    def ob(self, rule, key, ok, site=None, what='', detail=None, nontrivial=False):
        o = {'rule': rule, 'key': '%s|%s' % (rule, key), 'ok': bool(ok), 'site': site, 'what': what}
        if detail is not None:
            o['detail'] = detail
        o['nontrivial'] = bool(nontrivial)
        if not ok:
            # one failed obligation per construct (the same construct may fail on several paths)
            for prev in self.obs:
                if not prev['ok'] and prev['key'] == o['key']:
                    prev.setdefault('also', []).append(what)
                    return prev
        self.obs.append(o)
        return o

    def count(self, rule, n=1):
        self.counts[rule] = self.counts.get(rule, 0) + n

    def site(self, file, line):
        if not file:
            return None
        return '%s:%s' % (self.F.rel(file), line)

    def fn_site(self, fn, line=None):
        return '%s:%s' % (self.F.rel(fn['file']), line or fn['line'])

    def saw_function(self, name):
        self.analysed['functions'].add(name)

    def failed(self):
        return [o for o in self.obs if not o['ok']]


def short(cls):
    return cls.replace('Vector::BLF::', '')
