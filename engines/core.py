"""Obligation bookkeeping shared by all rule engines and the driver."""
import json
import os
import time

VERIF = os.path.dirname(os.path.dirname(os.path.abspath(__file__)))


class Report:
    """collects obligations {rule, key, ok, site, what}; a rule may also declare how many
    instances it matched so that floors can be enforced (a rule matching fewer sites than
    were confirmed by hand is 'analysis broken', not a pass)."""

    def __init__(self, facts):
        self.F = facts
        self.obs = []
        self.counts = {}
        self.notes = []
        self.analysed = {'functions': set(), 'paths': 0, 'call_sites': 0}

    def ob(self, rule, key, ok, site=None, what='', detail=None, nontrivial=False):
        o = {'rule': rule, 'key': '%s|%s' % (rule, key), 'ok': bool(ok), 'site': site, 'what': what}
        if detail is not None:
            o['detail'] = detail
        o['nontrivial'] = bool(nontrivial)
        if not ok:
            # one failed obligation per construct (the same construct may fail on several paths)
            for prev in self.obs:
                if not prev['ok'] and prev['key'] == o['key']:
                    prev.setdefault('also', []).append(what)
                    return prev
        self.obs.append(o)
        return o

    def count(self, rule, n=1):
        self.counts[rule] = self.counts.get(rule, 0) + n

    def site(self, file, line):
        if not file:
            return None
        return '%s:%s' % (self.F.rel(file), line)

    def fn_site(self, fn, line=None):
        return '%s:%s' % (self.F.rel(fn['file']), line or fn['line'])

    def saw_function(self, name):
        self.analysed['functions'].add(name)

    def failed(self):
        return [o for o in self.obs if not o['ok']]


def short(cls):
    return cls.replace('Vector::BLF::', '')


PIPE_RULES = set('K1 K2 K2s K2u K3 K4 K5 K6 K7 K8 K9 K10 K11 T1 T2 Q1 Q2 Q3 P1 P2 P3 P4 P5 O1 O2 O3 O4 C1 E1 E2 E4 H1 H2 H3 F3 F3p F4 F5 F6 '
                 'S1 S2 S3 S4 B3 B4 B7 DN Z1 A1 R1 R2 R3 R4 R5 P6 K12 H4 E5 K2a O5 K13 P7 P8 P9 K14 Q4 Q5 K5v F7 M1 O6 O7 K15 K9c F8'.split())

PIPELINE_CLASSES = ('Vector::BLF::File', 'Vector::BLF::UncompressedFile', 'Vector::BLF::CompressedFile', 'Vector::BLF::LogContainer',
                    'Vector::BLF::ObjectHeaderBase', 'Vector::BLF::AbstractFile')
MODELLED_HELPERS = {'logContainerContaining', 'createObject', 'internalHeaderSize', 'calculateHeaderSize', 'calculateObjectSize',
                    'is_open', 'good', 'eof', 'defaultLogContainerSize', 'hasExtData'}


def opaque_constructs(F):
    """constructs inside the functions the pipeline rules are anchored in that the path/tree analyses do not look into: a rule that
    fails while one of these is present may simply not see the statement it is looking for (it could sit inside the construct), so
    the verdict is 'undecided' (exit 2), never a violation.  The unchanged tree has none."""
    from facts import walk, strip_all_casts
    out = []
    for name, fns in sorted(F.functions.items()):
        for fn in fns:
            cls = fn.get('class') or ''
            if not (cls in PIPELINE_CLASSES or cls.startswith('Vector::BLF::ObjectQueue<')):
                continue
            # local lambdas of this function
            lambdas = set()
            for n in walk(fn['body']):
                if n.get('k') == 'Decl':
                    for v in n['vars']:
                        x = v.get('init')
                        while isinstance(x, dict) and x.get('k') in ('Cast', 'Construct') and (x.get('sub') or x.get('args')):
                            x = x.get('sub') or x['args'][0]
                        if isinstance(x, dict) and x.get('k') == 'Lambda':
                            lambdas.add(v['id'])
            stmt_calls = set()

            def mark(s_):
                if isinstance(s_, dict):
                    if s_.get('k') == 'Compound':
                        for c in s_['body']:
                            if isinstance(c, dict) and c.get('k') == 'Call':
                                stmt_calls.add(id(c))
                            mark(c)
                    else:
                        from facts import children
                        for c in children(s_):
                            if s_.get('k') in ('If', 'While', 'For', 'Do', 'Case', 'Default', 'Try', 'Switch') or 'body' in s_:
                                if isinstance(c, dict) and c.get('k') == 'Call' and c is not s_.get('cond'):
                                    stmt_calls.add(id(c))
                            mark(c)
            mark(fn['body'])
            cond_calls = set()
            for n in walk(fn['body']):
                if n.get('k') == 'If' and n.get('cond') is not None:
                    c = n['cond']
                    while isinstance(c, dict) and (c.get('k') == 'Cast' or (c.get('k') == 'Un' and c.get('op') == '!')):
                        c = c.get('sub')
                    if isinstance(c, dict) and c.get('k') == 'Call':
                        cond_calls.add(id(c))
            for n in walk(fn['body']):
                if n.get('k') != 'Call':
                    continue
                where = '%s (%s:%s)' % (short(fn['name']), F.rel(fn['file']), n.get('l'))
                if n.get('ck') == 'operator' and n.get('op') == '()' and n.get('args'):
                    o = n['args'][0]
                    while isinstance(o, dict) and o.get('k') in ('Cast', 'Construct') and (o.get('sub') or o.get('args')):
                        o = o.get('sub') or o['args'][0]
                    if isinstance(o, dict) and o.get('k') == 'Lambda':
                        out.append('immediately invoked lambda in ' + where)
                    elif isinstance(o, dict) and o.get('k') == 'Ref' and o.get('id') in lambdas and id(n) not in stmt_calls:
                        out.append('value of a local lambda used in ' + where)
                    continue
                if not n.get('calleeInRoot') or n.get('fn') in MODELLED_HELPERS:
                    continue
                cands = [c for c in F.functions.get(n.get('callee'), []) if c['sig'] == n.get('csig')]
                if len(cands) != 1:
                    continue
                c = cands[0]
                private_same = n.get('ck') == 'member' and n.get('clsq') == cls and c.get('access') == 2
                local_fn = n.get('ck') == 'function' and c.get('kind') == 'function'
                if not (private_same or local_fn):
                    continue
                if c.get('ret') == 'void' and id(n) in stmt_calls:
                    continue   # inlined by the path enumeration
                if c.get('ret') == 'bool' and id(n) in cond_calls:
                    continue   # inlined as a condition
                if private_same and n.get('fn') in ('uncompressedFile2ReadWriteQueue', 'readWriteQueue2UncompressedFile',
                                                   'compressedFile2UncompressedFile', 'uncompressedFile2CompressedFile'):
                    continue
                if _pure_helper(c):
                    continue   # an expression in a function's clothes: nothing a rule looks for (notify, wait, delete, a state change) can sit in it
                out.append('call of helper %s whose result is used in %s' % (short(c['name']), where))
    return out


def _pure_helper(c):
    """a helper whose body only computes a value from members: no assignment to anything but its own locals, no call except accessors of
    the standard containers / comparison and conversion operators / other member reads"""
    from facts import walk, strip_all_casts
    body = c.get('body')
    if not isinstance(body, dict):
        return False
    for n in walk(body):
        k = n.get('k')
        if k in ('New', 'Delete', 'Throw', 'Lambda', 'Try', 'While', 'For', 'Do'):
            return False
        if k == 'Bin' and n.get('op') in ('=', '+=', '-=', '*=', '/=', '|=', '&=', '^=', '<<=', '>>='):
            t = strip_all_casts(n.get('lhs'))
            if not (isinstance(t, dict) and t.get('k') == 'Ref' and t.get('dk') == 'local'):
                return False
        if k == 'Un' and n.get('op') in ('++', '--'):
            t = strip_all_casts(n.get('sub'))
            if not (isinstance(t, dict) and t.get('k') == 'Ref' and t.get('dk') == 'local'):
                return False
        if k == 'Call':
            if n.get('calleeInRoot'):
                return False
            fn = str(n.get('fn') or '')
            if not (fn in ('size', 'empty', 'front', 'back', 'data', 'get', 'cbegin', 'cend', 'begin', 'end', 'load', 'count', 'length') or
                    fn.startswith('operator') or n.get('ck') == 'operator' or (n.get('callee') or '') in ('std::min', 'std::max')):
                return False
    return True
