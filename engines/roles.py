"""A1/A2: context-sensitive call graph from the File API and the worker entry points,
thread roles, modes and phases.

A stage instance is a member of File whose class owns a mutex (m_readWriteQueue,
m_uncompressedFile, m_compressedFile).  For every call of a stage method we record who may
make it:  (role, mode, phase, call chain).

  role   APP | T:<thread entry function>
  mode   read | write | any      (branch of open() that starts the thread; branch of close())
  phase  pre-start | concurrent | post-join
"""
from facts import AnalysisBroken, walk, strip_all_casts, member_path
import flow

FILE = 'Vector::BLF::File'
ABSTRACT = 'Vector::BLF::AbstractFile'
IOS_IN, IOS_OUT = 'std::ios_base::in', 'std::ios_base::out'


def field_root(path):
    """('$file','m_x','y') / ('m_x','y') -> 'm_x'"""
    if not path:
        return None
    if path[0].startswith('$'):
        return path[1] if len(path) > 1 else None
    return path[0]


class Roles:
    def __init__(self, F, FL):
        self.F = F
        self.FL = FL
        self.file_rec = F.rec(FILE)
        self.stages = {}      # member name -> class
        for f in self.file_rec['fields']:
            r = F.records.get(f['t'])
            if r and any(x['name'] == 'm_mutex' for x in r['fields']):
                self.stages[f['name']] = f['t']
        if len(self.stages) < 3:
            raise AnalysisBroken('File has %d stage members with a mutex, expected 3' % len(self.stages))
        # paths that no session can take (contradicting tests of the open mode) are not paths of the program
        FL.path_filter = lambda evs: self.path_mode(evs) is not None
        FL._pcache = {}
        self.threads = {}     # entry qualified name -> {'mode':..., 'member': thread member name}
        self.calls = []       # stage calls
        self._find_threads()
        self._walk_roots()

    # ------------------------------------------------------------------ thread entries and modes
    def _file_locals(self):
        """single-assignment locals of File's methods -> initialiser (const bool reading = mode & std::ios_base::in;)"""
        t = self.__dict__.get('_flocals')
        if t is None:
            import rules_pipeline
            t = {}
            for q, fns in self.F.functions.items():
                if q.startswith(FILE + '::'):
                    for g in fns:
                        t.update(rules_pipeline._alias_table(g))
            self._flocals = t
        return t

    def _eval_mode(self, e, cfg, depth=0):
        """three-valued truth of a condition over the open mode in a session opened with cfg = {in: bool, out: bool}; None = does not say"""
        e = strip_all_casts(e)
        while isinstance(e, dict) and e.get('k') == 'Paren':
            e = strip_all_casts(e.get('sub'))
        if not isinstance(e, dict) or depth > 12:
            return None
        k = e.get('k')
        if k == 'Ref' and e.get('q') in (IOS_IN, IOS_OUT):
            return cfg[e['q']]
        if k == 'Ref' and e.get('dk') == 'local' and e.get('id') in self._file_locals():
            return self._eval_mode(self._file_locals()[e['id']], cfg, depth + 1)
        if k == 'Call' and e.get('ck') == 'member' and e.get('calleeInRoot') and not e.get('args') and (e.get('callee') or '').startswith(FILE + '::'):
            # bool isReadSession() const { return m_openMode == std::ios_base::in; } - a helper of File that only returns one expression
            o = strip_all_casts(e.get('obj')) if e.get('obj') is not None else None
            cands = [c for c in self.F.functions.get(e['callee'], []) if c['sig'] == e.get('csig') and c.get('body')]
            if len(cands) == 1 and (o is None or (isinstance(o, dict) and o.get('k') == 'This')):
                rets = [r for r in walk(cands[0]['body'], into_lambda=False) if r.get('k') == 'Return' and r.get('value') is not None]
                stm = cands[0]['body'].get('body', []) if cands[0]['body'].get('k') == 'Compound' else []
                if len(rets) == 1 and all(isinstance(x, dict) and x.get('k') in ('Return', 'Decl') for x in stm):
                    return self._eval_mode(rets[0]['value'], cfg, depth + 1)
            return None
        if k == 'Un' and e.get('op') == '!':
            v = self._eval_mode(e.get('sub'), cfg, depth + 1)
            return None if v is None else not v
        if k == 'Bin' and e.get('op') in ('&&', '||'):
            a = self._eval_mode(e['lhs'], cfg, depth + 1)
            b = self._eval_mode(e['rhs'], cfg, depth + 1)
            if e['op'] == '&&':
                return False if (a is False or b is False) else (True if (a is True and b is True) else None)
            return True if (a is True or b is True) else (False if (a is False and b is False) else None)
        args = None
        if k == 'Bin':
            args, op = [e['lhs'], e['rhs']], e.get('op')
        elif k == 'Call' and e.get('ck') == 'operator' and len(e.get('args', [])) == 2:
            args, op = e['args'], e.get('op')
        if args:
            sides = [strip_all_casts(a) for a in args]
            flags = [a for a in sides if isinstance(a, dict) and a.get('k') == 'Ref' and a.get('q') in (IOS_IN, IOS_OUT)]
            if op == '&' and len(flags) == 1:
                return cfg[flags[0]['q']]                       # mode & in
            if op in ('==', '!=') and len(flags) == 1:
                v = cfg[flags[0]['q']] and not any(cfg[q] for q in cfg if q != flags[0]['q'])   # mode == in  (false as soon as any other flag is set)
                return v if op == '==' else not v
            if op in ('==', '!='):
                zero = [a for a in sides if isinstance(a, dict) and a.get('v') == 0]
                if len(zero) == 1:
                    other = [a for a in sides if a is not zero[0]][0]
                    v = self._eval_mode(other, cfg, depth + 1)  # (mode & in) != 0
                    return None if v is None else (v if op == '!=' else not v)
        return None

    def _mode_of_cond(self, cond):
        """the mode a session must have for the condition to hold (one of in / out per session): 'read', 'write' or None.  Decided on the
        truth of the condition in a read session and in a write session, with File's single-assignment locals resolved - `if (reading)`,
        `if (!(reading || !writing))` and `if (mode & std::ios_base::in)` ... `else` say the same as the flag tests they stand for"""
        vals = {'read': self._eval_mode(cond, {IOS_IN: True, IOS_OUT: False, self._X: False}),
                'write': self._eval_mode(cond, {IOS_IN: False, IOS_OUT: True, self._X: False})}
        if all(v is None for v in vals.values()):
            return None
        possible = [m for m, v in vals.items() if v is not False]
        return possible[0] if len(possible) == 1 else None

    _X = 'other-flags'    # binary, trunc, app, ate: legal companions of in / out that must not change the dispatch
    _CFGS = (('read', {IOS_IN: True, IOS_OUT: False, _X: False}), ('read', {IOS_IN: True, IOS_OUT: False, _X: True}),
             ('write', {IOS_IN: False, IOS_OUT: True, _X: False}), ('write', {IOS_IN: False, IOS_OUT: True, _X: True}),
             ('none', {IOS_IN: False, IOS_OUT: False, _X: False}))

    def path_mode(self, evs):
        """the session mode a path belongs to, from ALL its mode branches, taken or not: 'read' / 'write' when only that kind of session
        is consistent with every outcome, 'any' when the path does not say, None when no session (one of in / out, or neither) can take it -
        `if (reading) {...}  if (!(reading || !writing)) {...}` has no path through both blocks"""
        ok = []
        for name, cfg in self._CFGS:
            good = True
            for e in evs:
                if e['ev'] == 'branch' and not e.get('loop'):
                    v = self._eval_mode(e['n'], cfg)
                    if v is not None and v != bool(e['taken']):
                        good = False
                        break
            if good:
                ok.append(name)
        if not ok:
            return None
        names = set(ok)
        return ok[0] if len(names) == 1 and ok[0] != 'none' else 'any'

    def _find_threads(self):
        F = self.F
        opens = [f for f in F.functions.get(FILE + '::open', []) if 'const char *' in f['sig']]
        if len(opens) != 1:
            raise AnalysisBroken('File::open(const char*, openmode) not found')
        self.open_fn = opens[0]

        def entry_of(a0, env):
            a0 = strip_all_casts(a0)
            if isinstance(a0, dict) and a0.get('k') == 'Un':
                a0 = strip_all_casts(a0['sub'])
            if isinstance(a0, dict) and a0.get('k') == 'Ref' and a0.get('dk') in ('method', 'function'):
                return a0['q']
            if isinstance(a0, dict) and a0.get('k') == 'Ref' and a0.get('dk') == 'parm':
                return env.get(a0['id'])
            return None

        def rec(s, mode, env, depth=0):
            if not isinstance(s, dict):
                return
            if s.get('k') == 'If':
                m = self._mode_of_cond(s['cond']) or mode
                rec(s.get('then'), m, env, depth)
                rec(s.get('else'), self._mode_of_cond({'k': 'Un', 'op': '!', 'sub': s['cond']}) or mode, env, depth)
                return
            if s.get('k') == 'Call' and s.get('ck') == 'operator' and s.get('op') == '=' and (s.get('cls') or '').startswith('std::thread'):
                # m_xThread = std::thread(entry, this)
                lhs = member_path(s['args'][0])
                for m in walk(s['args'][1]):
                    if m.get('k') == 'Construct' and (m.get('cls') or '').startswith('std::thread') and m.get('args'):
                        q = entry_of(m['args'][0], env)
                        if q:
                            self.threads.setdefault(q, {'mode': mode, 'line': s.get('l')})['member'] = field_root(lhs)
                            self.threads[q]['mode'] = self.threads[q].get('mode') or mode
                return
            if s.get('k') == 'Construct' and (s.get('cls') or '').startswith('std::thread') and s.get('args'):
                q = entry_of(s['args'][0], env)
                if q:
                    self.threads.setdefault(q, {'mode': mode, 'line': s.get('l')})
                    return
            if s.get('k') == 'Call' and s.get('ck') == 'member' and s.get('calleeInRoot') and s.get('clsq') == FILE and depth < 2:
                # a private helper of File that starts the threads it is given
                cands = [f for f in F.functions.get(s.get('callee'), []) if f['sig'] == s.get('csig') and f.get('access') == 2]
                if len(cands) == 1 and cands[0] is not self.open_fn:
                    env2 = {}
                    for p_, a_ in zip(cands[0]['params'], s.get('args', [])):
                        q = entry_of(a_, env)
                        if q:
                            env2[p_['id']] = q
                    if env2:
                        rec(cands[0]['body'], mode, env2, depth + 1)
                        return
            if s.get('k') == 'Call' and s.get('ck') == 'operator' and s.get('op') == '()' and s.get('args') and depth < 2:
                # a local lambda that starts the threads it is given: startThreads(uncompressedFileReadThread, compressedFileReadThread)
                o = strip_all_casts(s['args'][0])
                lam = lambdas.get(o.get('id')) if isinstance(o, dict) and o.get('k') == 'Ref' else None
                if lam is not None:
                    env2 = {}
                    for p_, a_ in zip(lam.get('params', []), s['args'][1:]):
                        q = entry_of(a_, env)
                        if q:
                            env2[p_['id']] = q
                    if env2:
                        rec(lam['body'], mode, env2, depth + 1)
                        return
            if s.get('k') == 'Lambda':
                return
            from facts import children
            for c in children(s):
                rec(c, mode, env, depth)
        # local lambdas of open(): name -> lambda node
        lambdas = {}
        for n in walk(self.open_fn['body']):
            if n.get('k') == 'Decl':
                for v in n['vars']:
                    x = v.get('init')
                    for _ in range(4):
                        if isinstance(x, dict) and x.get('k') in ('Cast', 'Construct') and (x.get('sub') or x.get('args')):
                            x = x.get('sub') or x['args'][0]
                    if isinstance(x, dict) and x.get('k') == 'Lambda':
                        lambdas[v['id']] = x
        rec(self.open_fn['body'], None, {})
        if len(self.threads) < 4:
            raise AnalysisBroken('found %d thread entry points in File::open, expected 4' % len(self.threads))
        for q, t in self.threads.items():
            if t['mode'] is None or 'member' not in t:
                raise AnalysisBroken('cannot determine mode/member of thread entry ' + q)

    # ------------------------------------------------------------------ call graph walk
    def _walk_roots(self):
        F = self.F
        for q, t in self.threads.items():
            fn = F.fn(q)
            self._walk(fn, None, 'T:' + q.split('::')[-1], t['mode'], 'concurrent', (q,), set())
        for m in self.file_rec['methods']:
            if m['access'] != 0 or m['static'] and m['name'] != 'createObject':
                continue
            for fn in F.functions.get(m['qname'], []):
                if fn['sig'] != m['sig']:
                    continue
                name = fn['simple']
                if name == 'close':
                    self._walk_close(fn)
                elif name == 'open' and fn is self.open_fn:
                    self._walk_open(fn)
                elif name == 'open':
                    continue   # the std::string overload only delegates to the one analysed above
                elif m['kind'] == 'ctor':
                    self._walk(fn, None, 'APP', 'any', 'pre-start', (fn['name'],), set())
                elif m['kind'] == 'dtor':
                    self._walk(fn, None, 'APP', 'any', 'concurrent', (fn['name'],), set(), skip={FILE + '::close'})
                else:
                    mode = {'read': 'read', 'write': 'write'}.get(name, 'any')
                    self._walk(fn, None, 'APP', mode, 'concurrent', (fn['name'],), set())

    def _record(self, call, beta, role, mode, phase, chain, caller):
        """record a call if its receiver is a stage instance"""
        F = self.F
        rk = (id(call), beta, role, mode, phase)
        rs = self.__dict__.setdefault('_rec_seen', set())
        if rk in rs:
            return
        rs.add(rk)
        if call.get('ck') != 'member':
            return
        stage = None
        p = member_path(call.get('obj')) if call.get('obj') is not None else None
        root = field_root(p) if p else None
        if root in self.stages and len([x for x in p if not x.startswith('$')]) == 1:
            stage = root
            cls = self.stages[root]
        elif call.get('objcls') == ABSTRACT and beta:
            stage, cls = beta
        if stage is None:
            return
        cands = self.FL.resolve(call, beta[1] if beta else None)
        for c in cands or [None]:
            self.calls.append({'stage': stage, 'cls': cls, 'method': call['fn'], 'callee': c['name'] if c else call.get('callee'),
                               'sig': call.get('csig'), 'role': role, 'mode': mode, 'phase': phase, 'chain': chain,
                               'line': call.get('l'), 'caller': caller['name'], 'file': caller['file']})

    def _beta_of_call(self, call, callee, beta):
        for p, a in zip(callee['params'], call.get('args', [])):
            if ABSTRACT in p['t'] and '&' in p['t']:
                x = strip_all_casts(a)
                if isinstance(x, dict):
                    if x.get('k') == 'Ref' and ABSTRACT in x.get('t', ''):
                        return beta
                    pth = member_path(x)
                    root = field_root(pth) if pth else None
                    if root in self.stages:
                        return (root, self.stages[root])
        return None

    def _walk(self, fn, beta, role, mode, phase, chain, seen, skip=(), body=None):
        key = (fn['name'], fn['sig'], beta, role, mode, phase)
        if key in seen:
            return
        seen.add(key)
        if len(chain) > 12:
            raise AnalysisBroken('call chain too deep: ' + ' > '.join(chain))
        for n in walk(body if body is not None else fn['body']):
            if n.get('k') not in ('Call', 'Construct'):
                continue
            self._record(n, beta, role, mode, phase, chain, fn)
            if not n.get('calleeInRoot'):
                continue
            for c in self.FL.resolve(n, beta[1] if beta else None):
                if c['name'] in skip:
                    continue
                if c.get('class') in self.stages.values():
                    # inside a stage method: calls on its own members are internal; still follow for nested stage use
                    pass
                nb = self._beta_of_call(n, c, beta)
                self._walk(c, nb, role, mode, phase, chain + (c['name'],), seen)

    def _walk_events(self, fn, evs, role, mode_of, phase_of):
        seen = self.__dict__.setdefault('_ev_seen', set())
        for i, e in enumerate(evs):
            if e['ev'] not in ('call',):
                continue
            n = e['n']
            mode = mode_of(i)
            phase = phase_of(i)
            self._record(n, None, role, mode, phase, (fn['name'],), fn)
            if n.get('calleeInRoot'):
                for c in self.FL.resolve(n, None):
                    nb = self._beta_of_call(n, c, None)
                    self._walk(c, nb, role, mode, phase, (fn['name'], c['name']), seen)

    def _walk_open(self, fn):
        paths = self.FL.paths(fn, follow=())
        for evs, out in paths:
            starts = [i for i, e in enumerate(evs) if e['ev'] == 'call' and (e['n'].get('cls') or '').startswith('std::thread') and e['n'].get('k') == 'Construct' and e['n'].get('args')]
            first = starts[0] if starts else len(evs)
            mode = self.path_mode(evs) or 'any'
            self._walk_events(fn, evs, 'APP', lambda i: mode, lambda i: 'pre-start' if i < first else 'concurrent')

    def _walk_close(self, fn):
        self.close_fn = fn
        paths = self.FL.paths(fn, follow=())
        nthreads = {t['member'] for t in self.threads.values()}
        for evs, out in paths:
            joins = {}
            for i, e in enumerate(evs):
                # EnsureJoined idiom `if (t.joinable()) t.join();` is one node: after it the thread is not running
                if e['ev'] == 'call' and e['n'].get('callee') in ('std::thread::join', 'std::thread::joinable'):
                    m = field_root(member_path(e['n'].get('obj')))
                    if e['n'].get('callee') == 'std::thread::join':
                        joins[m] = i
                    else:
                        joins.setdefault(m, i + 1)
            # mode regions: events between a taken mode-branch and the end
            regions = []
            for i, e in enumerate(evs):
                if e['ev'] == 'branch' and self._mode_of_cond(e['n']):
                    regions.append((i, self._mode_of_cond(e['n']), e['taken']))

            if len({m for (_, m, taken) in regions if taken}) > 1:
                continue   # assumption: a session is opened with exactly one of in / out (open() starts only one pair of threads)

            def mode_of(i):
                cur = 'any'
                for (j, m, taken) in regions:
                    if j < i:
                        cur = m if taken else cur
                return cur

            def phase_of(i):
                done = [m for m in nthreads if m in joins and joins[m] < i]
                return 'post-join' if len(done) == len(nthreads) else 'concurrent'
            self._walk_events(fn, evs, 'APP', mode_of, phase_of)

    # ------------------------------------------------------------------ queries
    def who_calls(self, stage=None, method=None, cls=None):
        out = []
        for c in self.calls:
            if stage and c['stage'] != stage:
                continue
            if cls and c['cls'] != cls:
                continue
            if method and c['method'] != method:
                continue
            out.append(c)
        return out

    def role_sets(self, stage, method_callee):
        """set of (role, mode, phase) for a concrete callee on a stage"""
        return {(c['role'], c['mode'], c['phase']) for c in self.calls if c['stage'] == stage and c['callee'] == method_callee}
