"""Layout rules over the codec interpreter (DESIGN 5: L1-L8, B1, B2, B5, B6, F1, F2).

For every creatable object class the three sibling functions are compared with each other
on every path:

  write side   (L3, L4, L5, L6, L8, B2, B6)   what is emitted vs what the header declares
  write->read  (L1, L2, L5)                    the reader is run *over the writer's symbolic
                                                output*: every field must come back into the
                                                member it was written from, every payload with
                                                its length, under the guards the writer took
  read side    (B1, B5, L7)                    every sink bounded, on arbitrary input
  read->write  (L2r, L7)                       the writer is run from the reader's final state:
                                                it must re-emit what was consumed
"""
import re
import sym
from sym import Lin
import codec
from codec import Interp, St, HEADER_CLASSES
from core import short
from facts import AnalysisBroken, fmt_path

OHB = 'Vector::BLF::ObjectHeaderBase'

# L5: the set of classes that pad to 4 bytes - frozen from the reference logs (the property
# fixes it: "the set of padding types is the one observed in the reference logs").
PADDING_CLASSES = frozenset('''AfdxFrame AppText EnvironmentVariable EthernetFrame EthernetRxError EventComment GlobalMarker
LogContainer Most150AllocTab Most150Message Most150MessageFragment Most150Pkt Most150PktFragment Most50Message Most50Pkt
MostAllocTab MostEthernetPkt MostEthernetPktFragment MostPkt MostPkt2 SerialEvent SystemVariable WlanFrame'''.split())


def object_classes(F):
    out = []
    for c in F.derived_from(OHB):
        r = F.records[c]
        if r['abstract'] or c in HEADER_CLASSES:
            continue
        out.append(c)
    return out


def guards_str(gs):
    return ' && '.join(sym.g_str(g) for g in gs) or 'true'


def live(paths):
    return [p for p in paths if not p.infeasible]


def trailing_pad(items, S):
    """the final alignment pad (objectSize % 4), if present"""
    if items and items[-1].kind == 'pad' and S is not None:
        if items[-1].width == sym.op('%', S, Lin(4)):
            return items[-1]
    return None


def total(items):
    t = Lin(0)
    for it in items:
        t = t + it.width
    return t


class LayoutRules:
    def __init__(self, F, rep):
        self.F = F
        self.rep = rep
        self._w = {}
        self._r = {}
        self._reported = set()

    # ------------------------------------------------------------------ path sets (memoised)
    def write_paths(self, cls):
        if cls not in self._w:
            I = Interp(self.F, cls, 'write')
            outs = live(I.run('write'))
            self._w[cls] = (I, outs)
            self.rep.analysed['paths'] += len(outs)
        return self._w[cls]

    def read_paths(self, cls):
        if cls not in self._r:
            I = Interp(self.F, cls, 'read')
            outs = live(I.run('read'))
            self._r[cls] = (I, outs)
            self.rep.analysed['paths'] += len(outs)
        return self._r[cls]

    def site(self, it):
        return self.rep.site(it.file, it.line) if it is not None else None

    def fnsite(self, cls, simple):
        fns = self.F.method(cls, simple)
        return self.rep.fn_site(fns[0]) if fns else None

    # ------------------------------------------------------------------ L3 / L4 / L5 / L8
    def check_write_side(self, cls, rules):
        rep = self.rep
        I, paths = self.write_paths(cls)
        sc = short(cls)
        is_obj = OHB in self.F.all_bases(cls)
        for p in paths:
            if p.thrown:
                # L3 (torn object): an encoder that gives up does so before its first byte - a header that declares N bytes followed by fewer
                # makes the reader take the next object's bytes for the rest of this one
                if 'L3' in rules and is_obj:
                    emitted = [it for it in p.items if not (it.width.is_const() and it.width.c == 0)]
                    if emitted:
                        rep.count('L3')
                        rep.ob('L3', '%s|throws-after-%d-items' % (sc, len(emitted)), False, self.site(emitted[-1]),
                               '%s: write() throws after it has emitted %d piece(s) of the object [when %s] - the stream holds a header that declares more '
                               'bytes than follow' % (sc, len(emitted), guards_str(p.guards)), nontrivial=True)
                continue
            g = guards_str(p.guards)
            S = p.menv.get(('objectSize',))
            H = p.menv.get(('headerSize',))
            tainted = bool(p.stale)
            if tainted:
                # attributed to L8 below; still an instance the rules looked at
                for r_ in ('L3', 'L4'):
                    if r_ in rules and is_obj:
                        rep.count(r_)
            if 'L3' in rules and is_obj and not tainted:
                rep.count('L3')
                if S is None:
                    rep.ob('L3', '%s|no-objectSize' % sc, False, self.fnsite(cls, 'write'),
                           '%s::write never assigns objectSize from calculateObjectSize()' % sc)
                else:
                    pad = trailing_pad(p.items, S)
                    emitted = total(p.items) - (pad.width if pad else Lin(0))
                    ok = emitted == S or sym.subst_eq(emitted, p.guards) == sym.subst_eq(S, p.guards)
                    rep.ob('L3', '%s|%s' % (sc, g), ok, self.fnsite(cls, 'write'),
                           '%s: write() emits %r bytes but calculateObjectSize() declares %r [when %s]' % (sc, emitted, S, g)
                           if not ok else '%s: emitted == declared == %r [when %s]' % (sc, S, g),
                           detail={'emitted': repr(emitted), 'declared': repr(S), 'guards': g,
                                   'items': [it.to_json() for it in p.items]},
                           nontrivial=bool(p.guards) or not S.is_const())
            if 'L4' in rules and is_obj and not tainted:
                rep.count('L4')
                hdr = [it for it in p.items if len(it.via) > 1 and it.via[1].rsplit('::', 1)[0] in HEADER_CLASSES]
                first_ok = bool(p.items) and p.items[0] in hdr
                hb = total(hdr)
                # the header items must be a prefix of the emission
                prefix_ok = p.items[:len(hdr)] == hdr
                ok = H is not None and hb == H and first_ok and prefix_ok
                rep.ob('L4', '%s|%s' % (sc, g), ok, self.fnsite(cls, 'write'),
                       '%s: header part emits %r bytes, calculateHeaderSize() declares %r, header first=%s' % (sc, hb, H, first_ok and prefix_ok),
                       nontrivial=True)
            if 'L8' in rules and is_obj:
                rep.count('L8')
                stale = sorted({x[0] for x in p.stale})
                ok = not stale
                first = p.stale[0] if p.stale else None
                rep.ob('L8', '%s|%s' % (sc, ','.join(fmt_path(m) for m in stale) or 'well-founded'), ok,
                       self.fnsite(cls, 'calculateObjectSize'),
                       ('%s: the declared size / a write guard is computed from the previous value of %s (consulted in %s line %s), '
                        'which write() itself redefines afterwards (line %s) - the encoding depends on what the object held before'
                        % (sc, ', '.join(fmt_path(m) for m in stale), short(first[2] or '?'), first[1], first[3])) if not ok else
                       '%s: size function reads no member that write() defines' % sc, nontrivial=bool(p.guards))
            if 'B2' in rules or 'B6' in rules or 'B5' in rules:
                self.sink_obligations(cls, p, 'write', rules)
            if 'L6' in rules:
                for (path, val, line, note, fn, nitems) in p.assigned:
                    if path and path[-1] == '.size()':
                        continue
                    rep.count('L6')
                    ok = True
                    what = '%s: %s := %r' % (sc, fmt_path(path), val)
                    if note and note.get('cast_size') and note.get('member_size') and note['cast_size'] < note['member_size']:
                        ok = False
                        what = ('%s: %s is declared %s but assigned through static_cast<%s> - lengths the field can represent '
                                'are silently truncated' % (sc, fmt_path(path), note['member_t'], note['cast_to']))
                    # pre-processing must precede the header (the header computes objectSize from it)
                    is_hdr_field = path in (('objectSize',), ('headerSize',))
                    if ok and not is_hdr_field and nitems > 0 and is_obj and not fn.endswith('::write') is False:
                        pass
                    rep.ob('L6', '%s|%s' % (sc, fmt_path(path)), ok, '%s:%s' % (self.fnsite(cls, 'write').split(':')[0], line), what,
                           nontrivial=True)
        if 'L6' in rules:
            seen = set()
            for p in paths:
                if p.thrown:
                    continue
                for it in p.items:
                    if it.kind != 'bytes' or (it.file, it.line) in seen:
                        continue
                    seen.add((it.file, it.line))
                    rep.count('L6')
                    cap = I.container_size(it.path, p).scale(it.elem or 1)
                    ok = sym.drop_trunc(cap) == sym.drop_trunc(it.width)   # equal for every length the field can represent
                    rep.ob('L6', '%s|payload:%s' % (short(it.fn), fmt_path(it.path)), ok, self.site(it),
                           '%s: emits %r bytes of %s which holds %r bytes%s' % (short(it.fn), it.width, fmt_path(it.path), cap,
                           '' if ok else ' - the length written is not derived from the container (missing pre-processing)'), nontrivial=True)
        if 'L5' in rules and is_obj:
            rep.count('L5')
            pads = set()
            for p in paths:
                if p.thrown:
                    continue
                S = p.menv.get(('objectSize',))
                pads.add(trailing_pad(p.items, S) is not None)
            padded = pads == {True}
            mixed = len(pads) > 1
            expected = sc in PADDING_CLASSES
            ok = (padded == expected) and not mixed
            rep.ob('L5', '%s|pad-set' % sc, ok, self.fnsite(cls, 'write'),
                   '%s: write() %s with skipp(objectSize %% 4); the format table says it %s' %
                   (sc, 'ends' if padded else ('sometimes ends' if mixed else 'does not end'), 'pads' if expected else 'does not pad'),
                   nontrivial=expected)

    def sink_obligations(self, cls, p, mode, rules):
        rep = self.rep
        sc = short(cls)
        bound_rule = 'B1' if mode == 'read' else 'B2'
        viol_sites = {(v['file'], v['line'], v['rule']): v for v in p.viol}
        for it in p.items:
            if it.kind == 'pad':
                # a skip done by reading into / writing out of a local scratch buffer is still a copy that must fit the buffer
                if isinstance(it.extra, dict) and it.extra.get('buffer') and bound_rule in rules:
                    rep.count(bound_rule)
                    v = viol_sites.get((it.file, it.line, bound_rule))
                    rep.ob(bound_rule, '%s|%s' % (short(it.fn), it.extra['buffer']), v is None, self.site(it),
                           ('%s: %s' % (short(it.fn), v['what'])) if v else '%s: %r bytes within the local buffer %s' % (short(it.fn), it.width, it.extra['buffer']),
                           nontrivial=True)
                continue
            rep.analysed['call_sites'] += 1
            name = fmt_path(it.path) if it.path is not None else (it.extra.get('name', 'local') if isinstance(it.extra, dict) else 'signature')
            if bound_rule in rules:
                rep.count(bound_rule)
                v = viol_sites.get((it.file, it.line, bound_rule))
                rep.ob(bound_rule, '%s|%s' % (short(it.fn), name), v is None, self.site(it),
                       ('%s: %s' % (short(it.fn), v['what'])) if v else '%s: %r bytes within %s' % (short(it.fn), it.width, name),
                       nontrivial=it.kind == 'bytes')
            if mode == 'write' and 'B6' in rules:
                rep.count('B6')
                ok = it.src in ('member', 'container')
                rep.ob('B6', '%s|%s' % (short(it.fn), name), ok, self.site(it),
                       '%s: write source is %s' % (short(it.fn), 'a member of the object' if ok else 'a %s - not object state' % it.src))
            if mode == 'read' and 'L7' in rules and it.extra != 'resync':
                rep.count('L7')
                ok = it.src in ('member', 'container')
                rep.ob('L7', '%s|%s' % (short(it.fn), name), ok, self.site(it),
                       '%s: bytes read land in %s' % (short(it.fn), 'member ' + name if ok else 'a %s and are lost' % it.src))
            if 'B5' in rules and it.src == 'container':
                rep.count('B5')
                ok = it.extra.get('trivCopy', True) is not False
                rep.ob('B5', '%s|%s' % (short(it.fn), name), ok, self.site(it),
                       '%s: raw byte I/O on %s whose element type %s is %strivially copyable' %
                       (short(it.fn), name, it.extra.get('elem_t'), '' if ok else 'NOT '))
            if 'B5' in rules and it.src == 'member' and isinstance(it.extra, dict) and it.extra.get('kind') == 'record':
                rep.count('B5')
                owner, f = Interp(self.F, cls, mode).field_info(cls, it.path)
                ok = bool(f.get('trivCopy'))
                # a record read/written whole must have no padding bytes (B6) - std::array has none
                rep.ob('B5', '%s|%s' % (short(it.fn), name), ok, self.site(it),
                       '%s: raw byte I/O on record member %s (%s) trivially copyable=%s' % (short(it.fn), name, f['t'], ok))

    # ------------------------------------------------------------------ read side (B1, B5, L7)
    def check_read_side(self, cls, rules):
        I, paths = self.read_paths(cls)
        for p in paths:
            self.sink_obligations(cls, p, 'read', rules)
        if 'L9' in rules:
            self.check_shape_members(cls, paths)
        if 'L7' in rules:
            # L7 (skips): the only bytes a decoder steps over instead of storing are alignment padding - objectSize % 4 behind the object and the
            # frozen inner pads.  A skip whose length depends on a field of the image (the unused tail of a fixed array, ...) drops bytes that a
            # Vector-produced image may carry and that the encoder then cannot reproduce
            rep = self.rep
            seen_pads = {}
            for p in paths:
                S = p.menv.get(('objectSize',))
                for it in p.items:
                    if it.kind == 'pad' and not (isinstance(it.extra, dict) and it.extra.get('by_read')):
                        seen_pads.setdefault((it.file, it.line), (it, S))
            for (f_, l_), (it, S) in sorted(seen_pads.items(), key=lambda kv: (str(kv[0][0]), kv[0][1] or 0)):
                rep.count('L7')
                w = it.width
                ok = w.is_const() or (S is not None and w == sym.op('%', S, Lin(4)))
                rep.ob('L7', '%s|skip@%s' % (short(cls), short(it.fn)), ok, self.site(it),
                       '%s: %s steps over %r bytes (alignment / fixed inner padding)' % (short(cls), short(it.fn), w) if ok else
                       '%s: %s steps over %r bytes - a length taken from the image, not alignment padding: whatever the image holds there is not stored '
                       'and cannot be re-encoded' % (short(cls), short(it.fn), w), nontrivial=True)
        if 'E6' in rules:
            # alignment padding is stepped over, not read: a read of padding that is cut off (or absent behind the last object of a file
            # written by another tool) sets eof|fail, and the good()-check behind the decode then discards an object / container whose own
            # bytes were all there
            rep = self.rep
            pads = {}
            for p in paths:
                for it in p.items:
                    if it.kind == 'pad':
                        pads.setdefault((it.file, it.line), it)
            for (f_, l_), it in sorted(pads.items(), key=lambda kv: (str(kv[0][0]), kv[0][1] or 0)):
                rep.count('E6')
                ok = not (isinstance(it.extra, dict) and it.extra.get('by_read'))
                rep.ob('E6', '%s|pad@%s' % (short(cls), short(it.fn)), ok, self.site(it),
                       '%s: %s steps over %r padding bytes with seekg' % (short(cls), short(it.fn), it.width) if ok else
                       '%s: %s consumes %r padding bytes by reading them: on a stream that ends inside (or right before) the padding the read sets '
                       'eof|fail and the complete %s in front of it is discarded by the stream-state check that follows the decode' %
                       (short(cls), short(it.fn), it.width, 'container' if short(cls) == 'LogContainer' else 'object'), nontrivial=True)

    # ------------------------------------------------------------------ L9: what decides the shape is an unsigned word
    def field_of_path(self, cls, path):
        cur = cls
        f = None
        for name in path:
            r = self.F.field(cur, name)
            if r is None:
                return None
            f = r[1]
            cur = f.get('rec') or cur
        return f

    def check_shape_members(self, cls, paths):
        """every serialised member whose value decides the shape of the object while decoding - it occurs in a guard that read() takes or in
        the size of a read / resize / skip - has an unsigned (or bool / enum) type.  The format's words are unsigned (every such member in
        the code base is); a signed one sends the upper half of its bit patterns down the other layout branch, or turns a length negative."""
        rep = self.rep
        sc = short(cls)
        seen = {}
        for p in paths:
            lins = []
            for g in p.guards:
                if isinstance(g, tuple) and g[0] == 'cmp':
                    lins.append(Lin(0, dict(g[1])))
                elif isinstance(g, tuple) and g[0] == 'bits':
                    lins.append(Lin(g[1][0], dict(g[1][1])))
            for it in p.items:
                lins.append(it.width)
            for l in lins:
                for t in l.all_atoms():
                    if t[0] == 'in' and isinstance(t[1], tuple) and t[1] and not str(t[1][0]).startswith('$'):
                        seen.setdefault(tuple(t[1]), None)
        for path in sorted(seen):
            f = self.field_of_path(cls, path)
            if f is None or f.get('kind') not in ('int', 'bool', 'enum'):
                continue
            rep.count('L9')
            ok = f.get('kind') != 'int' or f.get('signed') is False
            rep.ob('L9', '%s|%s' % (sc, fmt_path(path)), ok, rep.site(self.F.records.get(cls, {}).get('file'), f.get('line')) or self.fnsite(cls, 'read'),
                   '%s: %s (%s) takes part in deciding the decoded shape and is unsigned' % (sc, fmt_path(path), f.get('t')) if ok else
                   '%s: %s decides the shape of the decoded object (guard or length in read()) but has the signed type %s: bit patterns with the top bit '
                   'set take the other branch / give a negative length, unlike every other shape-deciding word of the format' % (sc, fmt_path(path), f.get('t')),
                   nontrivial=True)

    # ------------------------------------------------------------------ write -> read (L1, L2, L5)
    def check_roundtrip(self, cls):
        rep = self.rep
        sc = short(cls)
        Iw, wpaths = self.write_paths(cls)
        for W in wpaths:
            if W.thrown:
                continue
            rep.count('L1')
            if W.stale:
                continue   # the writer's own guards are inconsistent (L8 reports it); nothing to read back
            g = guards_str(W.guards)
            Ir = Interp(self.F, cls, 'read', stream=W.items)
            Ir.bounds = dict(Iw.bounds)
            init = St()
            init.guards = list(W.guards)
            rpaths = live(Ir.run('read', init=init))
            rep.analysed['paths'] += len(rpaths)
            good = [r for r in rpaths if not r.thrown]
            site = self.fnsite(cls, 'read')
            if not good:
                rep.ob('L1', '%s|%s|reader-throws' % (sc, g), False, site,
                       '%s: reading back what write() emitted [when %s] always throws' % (sc, g))
                continue
            problems = []
            for R in good:
                rg = guards_str(R.guards[len(W.guards):])
                for v in R.viol:
                    if v['rule'] in ('L1', 'L5', 'L7'):
                        problems.append((v['rule'], v['key'], v['what'], self.rep.site(v['file'], v['line'])))
                if R.dead:
                    continue
                rest = [x for x in W.items[R.pos:] if not (x.width.is_const() and x.width.c == 0)]
                if rest:
                    problems.append(('L1', 'unconsumed:' + (fmt_path(rest[0].path) if rest[0].path else rest[0].kind),
                                     'write() emits %s (+%d more) that read() never consumes [reader path: %s]' %
                                     (rest[0].desc(), len(rest) - 1, rg), self.site(rest[0])))
                for (chunk, it) in R.pairs:
                    if chunk.kind == 'pad' or it.kind == 'pad':
                        if chunk.kind != it.kind:
                            problems.append(('L7', 'padfield:' + (fmt_path((chunk.path or it.path) or ())),
                                             '%s faces %s' % (chunk.desc(), it.desc()), self.site(it)))
                        continue
                    if chunk.path != it.path:
                        problems.append(('L1', 'swap:' + fmt_path(chunk.path or ()),
                                         'bytes written from member %s are read into member %s' %
                                         (fmt_path(chunk.path or ()), fmt_path(it.path) if it.path else 'a local'), self.site(it)))
                        continue
                    if it.src == 'member' and chunk.value is not None:
                        fin = R.menv.get(it.path)
                        if fin != chunk.value:
                            problems.append(('L1', 'value:' + fmt_path(it.path),
                                             'member %s is written as %r but holds %r after read()' % (fmt_path(it.path), chunk.value, fin),
                                             self.site(it)))
                    if it.kind == 'bytes':
                        cap = Ir.container_size(it.path, R).scale(it.elem or 1)
                        if sym.drop_trunc(cap) != sym.drop_trunc(chunk.width):
                            problems.append(('L1', 'length:' + fmt_path(it.path),
                                             'payload %s: %r bytes written, container holds %r bytes after read()' %
                                             (fmt_path(it.path), chunk.width, cap), self.site(it)))
            seen = set()
            for (rule, key, what, s) in problems:
                k = '%s|%s' % (sc, key)
                if (rule, k) in seen or (rule, k) in self._reported:
                    continue
                seen.add((rule, k))
                self._reported.add((rule, k))
                rep.ob(rule, k, False, s or site, '%s [writer path: %s]: %s' % (sc, g, what))
            if not problems:
                rep.ob('L1', '%s|%s' % (sc, g), True, site,
                       '%s: read() over the output of write() [when %s]: %d items come back into the members they were written '
                       'from, %d reader path(s)' % (sc, g, len(W.items), len(good)),
                       detail={'items': [it.to_json() for it in W.items][:40]}, nontrivial=bool(W.guards) or any(i.kind == 'bytes' for i in W.items))

    # ------------------------------------------------------------------ read -> write (L2r, L7)
    def check_reencode(self, cls):
        rep = self.rep
        sc = short(cls)
        Ir, rpaths = self.read_paths(cls)
        for R in rpaths:
            if R.thrown or R.dead:
                continue
            g = guards_str(R.guards)
            rep.count('L2r')
            Iw = Interp(self.F, cls, 'write')
            Iw.bounds = dict(Ir.bounds)
            init = St()
            init.guards = list(R.guards)
            init.menv = dict(R.menv)
            init.sz = dict(R.sz)
            # containers the reader never touched are still empty (fresh object)
            wpaths = live(Iw.run('write', init=init))
            # (paths on which the size function consulted a member that write() redefines - L8 - are executed as written: that IS what
            # the encoder does with the state the decoder left)
            wpaths = [w for w in wpaths if not w.thrown]
            rep.analysed['paths'] += len(wpaths)
            site = self.fnsite(cls, 'write')
            problems = []
            for W in wpaths:
                wg = guards_str(W.guards[len(R.guards):])
                # fields the encoder recomputes by design: the header's size fields, and members assigned from a
                # container size / size function (a constant assignment is *not* a recomputation: it destroys the value read)
                recomputed = {a[0] for a in W.assigned if not (a[3] or {}).get('literal')}
                # items that are provably empty on this writer path (a payload of size() == 0 that one side skips explicitly) carry no bytes
                def _empty(it_):
                    if it_.kind == 'pad':
                        return False
                    w_ = sym.subst_eq(sym.drop_trunc(it_.width), W.guards)
                    return w_.is_const() and w_.c == 0
                ri = [i for i in R.items if not _empty(i)]
                wi = [i for i in W.items if not _empty(i)]
                n = min(len(ri), len(wi))
                for k in range(n):
                    a, b = ri[k], wi[k]
                    if a.kind == 'pad' or b.kind == 'pad':
                        if a.kind != b.kind:
                            problems.append(('L7', 'padfield:%d' % k, 'read(): %s  vs  write(): %s' % (a.desc(), b.desc()), self.site(b)))
                        elif a.width != b.width and not self._same_pad(a, b, R, W):
                            problems.append(('L5', 'pad:%d' % k, 'read() skips %r bytes, write() pads %r bytes' % (a.width, b.width), self.site(b)))
                        continue
                    if a.path != b.path:
                        problems.append(('L2r', 'order:' + fmt_path(a.path or ()),
                                         'position %d: read() fills %s, write() emits %s' % (k, fmt_path(a.path or ()), fmt_path(b.path or ())),
                                         self.site(b)))
                        break
                    if a.width != b.width:
                        if a.path in recomputed:
                            continue
                        problems.append(('L2r', 'width:' + fmt_path(a.path or ()),
                                         '%s: read() consumes %r bytes, write() re-emits %r bytes' % (fmt_path(a.path or ()), a.width, b.width),
                                         self.site(b)))
                        break
                    # what read() stored must be what it consumed: a member that the decoder changes after reading it (masking flag bits,
                    # clamping a count) re-encodes to other bytes than the image held
                    if a.src == 'member' and isinstance(a.extra, dict) and a.extra.get('scalar') and a.path not in recomputed:
                        idx_a = [i_ for i_, x_ in enumerate(R.items) if x_ is a]
                        later = [g_ for g_ in R.assigned if g_[0] == a.path and idx_a and g_[5] > idx_a[0]]
                        if later:
                            problems.append(('L2r', 'overwritten:%s@%s' % (fmt_path(a.path), short(a.fn)), '%s: read() changes the member (line %s) after taking it from the image: '
                                             'the bytes of the image are not what write() re-emits' % (fmt_path(a.path), later[0][2]), self.site(a)))
                    # a length the encoder derives from its container is the length the decoder took from the image - provided the decoder gave
                    # the container exactly that many elements (a decoder that clamps the count re-encodes a shorter object with another length field)
                    if b.value is not None and a.path in R.menv and a.path in recomputed and a.path not in (('objectSize',), ('headerSize',)) and \
                            a.src == 'member' and isinstance(a.extra, dict) and a.extra.get('scalar'):
                        vr = sym.subst_eq(sym.drop_trunc(R.menv[a.path]), W.guards)
                        vw = sym.subst_eq(sym.drop_trunc(b.value), W.guards)
                        # (only clamped counts are judged here: a count rounded by the element size, or a struct length that is a constant of the
                        # format, re-encodes identically for every image a Vector tool writes)
                        if vr != vw and ' min ' in repr(vw):
                            problems.append(('L2r', 'recomputed:' + fmt_path(a.path), '%s: the image says %r, write() recomputes %r from what read() stored - the decoder '
                                             'did not keep as many elements as the image declares' % (fmt_path(a.path), R.menv[a.path], b.value), self.site(b)))
                    if b.value is not None and a.path in R.menv and b.value != R.menv[a.path] and a.path not in recomputed:
                        problems.append(('L2r', 'value:' + fmt_path(a.path), '%s: read %r, re-emitted %r' % (fmt_path(a.path), R.menv[a.path], b.value), self.site(b)))
                else:
                    if len(ri) != len(wi):
                        extra = (wi[n:] or ri[n:])[0]
                        side = 'write() emits' if len(wi) > len(ri) else 'read() consumes'
                        problems.append(('L2r', 'tail:' + (fmt_path(extra.path) if extra.path else extra.kind),
                                         '%s %s (+%d more) without a counterpart on the other side [write guards: %s]' %
                                         (side, extra.desc(), abs(len(wi) - len(ri)) - 1, wg), self.site(extra)))
            seen = set()
            gk = re.sub(r'#\d+', '', g)
            for (rule, key, what, s) in problems:
                # the reader path is part of the identity of a finding: the same symptom under another input condition is another finding
                k = '%s|%s' % (sc, key) + ('|when ' + gk if R.guards else '')
                if key.startswith('overwritten:'):
                    k = key     # a statement of the (shared) decoder function: one finding, not one per derived class
                if (rule, k) in seen or (rule, k) in self._reported:
                    continue
                seen.add((rule, k))
                self._reported.add((rule, k))
                rep.ob(rule, k, False, s or site, '%s [reader path: %s]: %s' % (sc, g, what))
            if not problems:
                rep.ob('L2r', '%s|%s' % (sc, g), True, site,
                       '%s: write() from the state read() leaves [when %s] re-emits the %d consumed items in order' % (sc, g, len(R.items)),
                       nontrivial=bool(R.guards) or any(i.kind == 'bytes' for i in R.items))

    @staticmethod
    def _same_pad(a, b, R, W):
        """objectSize %% 4 on both sides: the reader's is the size it read, the writer's the size it
        recomputed; C02 compares recomputed fields against the recomputed value"""
        rs = R.menv.get(('objectSize',))
        ws = W.menv.get(('objectSize',))
        if rs is None or ws is None:
            return False
        return a.width == sym.op('%', rs, Lin(4)) and b.width == sym.op('%', ws, Lin(4))
