"""File-level rules: ownership (O1-O4), commit completeness (C1), check-before-commit (E1), zlib
discipline (E2), statistics (H1, H2), format tables / flows / who-may-write (F1-F6), resync
and unknown skip (S1, S2, S3), progress (T1), container invariant (B3, B4), File fields (K9),
skipp (Z1), null checks (DN)."""
from facts import AnalysisBroken, walk, children, strip, strip_all_casts, member_path
from core import short
import flow
import re
from flow import fmt_events
from roles import field_root, FILE
from rules_pipeline import expr_str, methods_of, resolve_alias, deep_resolve, flat_nodes
import rules_pipeline

OHB = 'Vector::BLF::ObjectHeaderBase'
U2Q = FILE + '::uncompressedFile2ReadWriteQueue'
Q2U = FILE + '::readWriteQueue2UncompressedFile'
C2U = FILE + '::compressedFile2UncompressedFile'
U2C = FILE + '::uncompressedFile2CompressedFile'


def local_id(e):
    e = strip_all_casts(e)
    if isinstance(e, dict) and e.get('k') == 'Ref' and e.get('dk') in ('local', 'parm'):
        return e['id']
    return None


def uses_local(n, vid):
    return any(x.get('k') == 'Ref' and x.get('id') == vid for x in walk(n))


def recv_root(call):
    p = member_path(call.get('obj')) if call.get('obj') is not None else None
    return field_root(p) if p else None


def is_null_test(cond, vid):
    """returns True if cond is (v == nullptr) / !v ; False if (v != nullptr) / v ; None otherwise"""
    c = strip(cond)
    while isinstance(c, dict) and c.get('k') == 'Cast':
        c = strip(c['sub'])
    if not isinstance(c, dict):
        return None
    if c.get('k') == 'Bin' and c.get('op') in ('==', '!='):
        l, r = strip_all_casts(c['lhs']), strip_all_casts(c['rhs'])
        for a, b in ((l, r), (r, l)):
            if isinstance(a, dict) and a.get('id') == vid and isinstance(b, dict) and b.get('lit') == 'null':
                return c['op'] == '=='
    if c.get('k') == 'Un' and c.get('op') == '!':
        s = strip_all_casts(c['sub'])
        if isinstance(s, dict) and s.get('id') == vid:
            return True
    if c.get('k') == 'Ref' and c.get('id') == vid:
        return False
    return None


# ---------------------------------------------------------------------- O1 / O2 ownership
def owned_pointer_sources(fn):
    """local pointer variables that receive ownership: new, createObject(), queue.read()"""
    out = {}
    for n in walk(fn['body'], into_lambda=False):
        if n.get('k') == 'Decl':
            for v in n['vars']:
                init = strip_all_casts(v.get('init')) if v.get('init') else None
                if isinstance(init, dict) and v.get('t', '').startswith('std::unique_ptr<'):
                    # a local smart owner: std::unique_ptr<T> owner(createObject(...) / new T)
                    a0 = init
                    for _ in range(3):
                        if isinstance(a0, dict) and a0.get('k') == 'Construct' and a0.get('args'):
                            a0 = strip_all_casts(a0['args'][0])
                    if isinstance(a0, dict) and (a0.get('k') == 'New' or (a0.get('k') == 'Call' and a0.get('fn') == 'createObject')):
                        out[v['id']] = (v['name'], 'unique_ptr(%s)' % ('new' if a0.get('k') == 'New' else 'createObject()'))
                    continue
                if not v.get('t', '').endswith('*') or not isinstance(init, dict):
                    continue
                if init.get('k') == 'New':
                    out[v['id']] = (v['name'], 'new')
                elif init.get('k') == 'Call' and init.get('fn') == 'createObject':
                    out[v['id']] = (v['name'], 'createObject()')
                elif init.get('k') == 'Call' and init.get('fn') == 'read' and 'ObjectQueue' in (init.get('cls') or ''):
                    out[v['id']] = (v['name'], 'queue.read()')
    return out


def aliases_of(fn, vid):
    """locals bound by reference (or pointer) to the owned object or one of its members: `const T & x = obj->field;`"""
    out = set()
    for n in walk(fn['body'], into_lambda=False):
        if n.get('k') == 'Decl':
            for v in n['vars']:
                t = v.get('t', '')
                if (t.endswith('&') or t.endswith('*')) and v.get('init') is not None and v['id'] != vid:
                    if any(x.get('k') == 'Ref' and x.get('id') == vid for x in walk(v['init'])):
                        init = strip_all_casts(v['init'])
                        # a plain copy of the pointer value (T * p = obj) is an alias as well
                        out.add(v['id'])
    return out


def ownership_event(e, vid, aliases=()):
    """classify an event w.r.t. owned pointer vid: 'sink' (transfer/delete/return), 'use', or None"""
    n = e.get('n')
    if aliases and e['ev'] == 'use' and n.get('k') == 'Ref' and n.get('id') in aliases:
        return 'use', 'alias ' + str(n.get('name'))
    if e['ev'] == 'delete' and local_id(n.get('sub')) == vid:
        return 'sink', 'delete'
    if e['ev'] == 'delete' and aliases and local_id(n.get('sub')) in aliases:
        return 'sink', 'delete through the alias ' + str((strip_all_casts(n.get('sub')) or {}).get('name'))
    if e['ev'] == 'call' and n.get('k') == 'Call' and n.get('fn') in ('release', 'reset') and n.get('obj') is not None and local_id(n.get('obj')) == vid and \
            (n.get('cls') or '').startswith('std::unique_ptr'):
        return 'sink', 'owner.%s()' % n['fn']
    if e['ev'] == 'return' and n.get('value') is not None and local_id(n['value']) == vid:
        return 'sink', 'return'
    if e['ev'] == 'call' and n.get('k') == 'Call':
        # hand-over: the pointer itself is passed to ObjectQueue::write
        if n.get('fn') == 'write' and 'ObjectQueue' in (n.get('cls') or '') and any(local_id(a) == vid for a in n.get('args', [])):
            return 'sink', 'queue.write'
        if n.get('fn') in ('push', 'push_back', 'emplace') and (n.get('cls') or '').startswith(('std::queue', 'std::deque', 'std::list')) and \
                any(local_id(a) == vid for a in n.get('args', [])):
            return 'sink', 'storage.push'
        if n.get('obj') is not None and local_id(n.get('obj')) == vid:
            return 'use', n.get('fn')
        def _only_released(a_):
            x = strip_all_casts(a_)
            return isinstance(x, dict) and x.get('k') == 'Call' and x.get('fn') == 'release' and x.get('obj') is not None and local_id(x['obj']) == vid
        if any(uses_local(a, vid) and not _only_released(a) for a in n.get('args', [])):
            return 'use', 'arg of ' + str(n.get('fn'))
    if e['ev'] == 'use' and n.get('k') == 'Member':
        b = n.get('base')
        if b is not None and local_id(b) == vid:
            return 'use', '->' + n.get('name', '?')
    return None


def O1O2(F, rep, FL, fnames, rules=('O1', 'O2')):
    for q in fnames:
        fn = F.fn(q)
        rep.saw_function(q)
        owned = owned_pointer_sources(fn)
        # parameters that take ownership: File::write(ohb) forwards to the queue
        for p in fn['params']:
            if p['t'].endswith('*') and OHB in p['t'] and fn['simple'] == 'write':
                owned[p['id']] = (p['name'], 'parameter')   # File::write(ohb) and ObjectQueue<T>::write(obj) take ownership
        paths = FL.paths(fn, follow=())   # normal edges + the function's own throws (DESIGN O2)
        rep.analysed['paths'] += len(paths)
        for vid, (name, src) in sorted(owned.items()):
            bad_o1 = None
            bad_o2 = None
            for evs, out in paths:
                # ownership starts at the declaration
                start = 0
                for i, e in enumerate(evs):
                    if e['ev'] == 'decl' and e['var']['id'] == vid:
                        start = i + 1
                if src != 'parameter' and not any(e['ev'] == 'decl' and e['var']['id'] == vid for e in evs):
                    continue
                null_path = False
                sinks = []
                al = aliases_of(fn, vid)
                for i in range(start, len(evs)):
                    e = evs[i]
                    if e['ev'] == 'branch':
                        for v_ in [vid] + sorted(al):
                            t = is_null_test(e['n'], v_)
                            if t is not None and (t == e['taken']):
                                null_path = True
                    if e['ev'] == 'decl' and e['var']['id'] in al:
                        continue   # binding the alias is not a use after the sink (it happens before)
                    oe = ownership_event(e, vid, al)
                    if oe is None:
                        continue
                    if oe[0] == 'sink':
                        if sinks and sinks[0][1] != 'return' and bad_o1 is None:
                            # touching (deleting, handing over again) an object that already belongs to somebody else
                            bad_o1 = (oe[1] + ' again', e.get('l'), sinks[0], evs)
                        sinks.append((i, oe[1], e.get('l')))
                    elif oe[0] == 'use' and sinks and bad_o1 is None:
                        bad_o1 = (oe[1], e.get('l'), sinks[-1], evs)
                if null_path:
                    continue
                if src.startswith('unique_ptr(') and not any(s_[1].startswith('owner.') for s_ in sinks):
                    # still owning when the scope is left (normally or by an exception): the smart pointer deletes the object
                    sinks.append((len(evs), 'delete by ~unique_ptr at scope exit', None))
                if len(sinks) != 1 and bad_o2 is None:
                    bad_o2 = (len(sinks), out, evs, [s[1] for s in sinks])
            if 'O1' in rules:
                rep.count('O1')
                rep.ob('O1', '%s|%s' % (short(q), name), bad_o1 is None, rep.fn_site(fn, bad_o1[1] if bad_o1 else None),
                       '%s: %s (%s) is not used after its ownership sink on any path' % (short(q), name, src) if bad_o1 is None else
                       '%s: %s is used (%s, line %s) after it was handed over by %s (line %s) - the new owner may already have deleted it'
                       % (short(q), name, bad_o1[0], bad_o1[1], bad_o1[2][1], bad_o1[2][2]), nontrivial=True)
            if 'O2' in rules:
                rep.count('O2')
                rep.ob('O2', '%s|%s' % (short(q), name), bad_o2 is None, rep.fn_site(fn),
                       '%s: %s (%s) is transferred / deleted / returned exactly once on every path' % (short(q), name, src) if bad_o2 is None else
                       '%s: %s (%s) meets %d ownership sinks %s on the path ending in %s: %s' %
                       (short(q), name, src, bad_o2[0], bad_o2[3], bad_o2[1], fmt_events(bad_o2[2])), nontrivial=True)


def O3(F, rep, R, FL):
    """thread start/join pairing, open/close guards, ~File -> close"""
    close = R.close_fn
    # every thread member assigned in open() is EnsureJoined on every path of the matching close() branch
    for q, t in sorted(R.threads.items()):
        rep.count('O3')
        bad = None
        n = 0
        for evs, out in FL.paths(close, follow=()):
            taken = [R._mode_of_cond(e['n']) for e in evs if e['ev'] == 'branch' and e['taken'] and R._mode_of_cond(e['n'])]
            if t['mode'] not in taken:
                continue
            if out not in ('normal', 'return'):
                continue
            n += 1
            ok = any(e['ev'] == 'call' and e['n'].get('callee') in ('std::thread::join', 'std::thread::joinable') and
                     field_root(member_path(e['n'].get('obj'))) == t['member'] for e in evs)
            # joinable() must guard a join: branch taken on joinable -> join call follows
            for i, e in enumerate(evs):
                if e['ev'] == 'branch' and e['taken'] and any(x.get('k') == 'Call' and x.get('callee') == 'std::thread::joinable' and
                                                             field_root(member_path(x.get('obj'))) == t['member'] for x in walk(e['n'])):
                    if not any(x['ev'] == 'call' and x['n'].get('callee') == 'std::thread::join' and
                               field_root(member_path(x['n'].get('obj'))) == t['member'] for x in evs[i:]):
                        ok = False
            if not ok:
                bad = evs
                break
        rep.ob('O3', 'join|%s' % short(q), bad is None and n > 0, rep.fn_site(close),
               'close() [%s mode] joins %s (started as %s) on all %d completing paths' % (t['mode'], t['member'], short(q), n) if bad is None and n > 0 else
               'close() [%s mode] can return without joining %s: %s' % (t['mode'], t['member'], fmt_events(bad) if bad else 'no path'), nontrivial=True)
    # open(): thread starts are dominated by the early-return guard on is_open() and on the open failure
    rep.count('O3')
    ok = True
    npaths = 0
    for evs, out in FL.paths(R.open_fn, follow=()):
        starts = [i for i, e in enumerate(evs) if e['ev'] == 'call' and e['n'].get('k') == 'Construct' and (e['n'].get('cls') or '').startswith('std::thread') and e['n'].get('args')]
        if not starts:
            continue
        npaths += 1
        guards = [e for e in evs[:starts[0]] if e['ev'] == 'branch' and any(x.get('k') == 'Call' and x.get('fn') == 'is_open' for x in walk(e['n']))]
        if len(guards) < 2:
            ok = False
    rep.ob('O3', 'open|guards', ok and npaths > 0, rep.fn_site(R.open_fn),
           'open(): both thread pairs are started only after the already-open guard and the open-failed guard (%d starting paths)' % npaths,
           nontrivial=True)
    # a session that is opened gets its workers: every completing path that enters the read or the write branch starts both threads (or
    # closes the file again).  A return in between leaves an open File whose read() waits for an end of stream nobody will declare
    rep.count('O3')
    bad_start = None
    nmode = 0
    for evs, out in FL.paths(R.open_fn, follow=()):
        if out not in ('normal', 'return'):
            continue
        m = [R._mode_of_cond(e['n']) for e in evs if e['ev'] == 'branch' and e['taken'] and R._mode_of_cond(e['n'])]
        if not m:
            continue
        nmode += 1
        starts = [e for e in evs if e['ev'] == 'call' and (e['n'].get('cls') or '').startswith('std::thread') and
                  (e['n'].get('k') == 'Construct' and e['n'].get('args') or e['n'].get('op') == '=')]
        nthreads = len([e for e in evs if e['ev'] == 'call' and e['n'].get('k') == 'Construct' and (e['n'].get('cls') or '').startswith('std::thread') and e['n'].get('args')])
        closed = any(e['ev'] == 'call' and e['n'].get('fn') == 'close' and recv_root(e['n']) == 'm_compressedFile' for e in evs)
        if nthreads < 2 and not closed:
            bad_start = evs
            break
    rep.ob('O3', 'open|workers-started', bad_start is None and nmode > 0, rep.fn_site(R.open_fn),
           'open(): every completing path through the read or the write branch starts both workers (%d paths)' % nmode if bad_start is None and nmode > 0 else
           'open() can return with the file open but without its workers (%s): read() then waits for an end of stream that nobody declares' %
           (fmt_events(bad_start, limit=14) if bad_start else 'no path'), nontrivial=True)
    # an open() that starts no session (the File is open already, or the file could not be opened) leaves the pipeline as it was: whatever
    # it does to a stage (declare an end, abort, resize) is still there when a later open() on the same File succeeds
    rep.count('O3')
    bad_fx = None
    nidle = 0
    for evs, out in FL.paths(R.open_fn, follow=()):
        if out != 'return':
            continue    # (falling off the end with neither in nor out requested is outside the documented use)
        if [1 for e in evs if e['ev'] == 'branch' and e['taken'] and R._mode_of_cond(e['n'])]:
            continue
        if any(e['ev'] == 'call' and (e['n'].get('cls') or '').startswith('std::thread') for e in evs):
            continue
        nidle += 1
        for e in evs:
            if e['ev'] == 'call' and e['n'].get('ck') == 'member' and recv_root(e['n']) in R.stages and recv_root(e['n']) != 'm_compressedFile' and \
                    e['n'].get('cconst') is False:
                bad_fx = ('calls %s.%s() (line %s)' % (recv_root(e['n']), e['n'].get('fn'), e.get('l')), evs)
            if e['ev'] == 'assign' and _assign_target(e['n']) and F.field(FILE, _assign_target(e['n'])) is not None and \
                    (member_path(e['n'].get('lhs') or (e['n'].get('args') or [None])[0]) or ('$',))[0] in (_assign_target(e['n']),):
                bad_fx = ('assigns %s (line %s)' % (_assign_target(e['n']), e.get('l')), evs)
        if bad_fx:
            break
    rep.ob('O3', 'open|no-session-no-effect', bad_fx is None and nidle > 0, rep.fn_site(R.open_fn),
           'open(): the paths that start no session leave the stages and the File members untouched (%d paths)' % nidle if bad_fx is None and nidle > 0 else
           'open() %s on a path that starts no session (%s): the change is still in effect when a later open() on this File succeeds' %
           (bad_fx[0], fmt_events(bad_fx[1], limit=10)) if bad_fx else 'open(): no idle path found', nontrivial=True)
    # the mode close() dispatches on is recorded only once the session really starts: behind both guards of open()
    rep.count('O3')
    bad = None
    nasg = 0
    for evs, out in FL.paths(R.open_fn, follow=()):
        for i, e in enumerate(evs):
            if e['ev'] == 'assign' and _assign_target(e['n']) == 'm_openMode':
                nasg += 1
                guards = [g for g in evs[:i] if g['ev'] == 'branch' and any(x.get('k') == 'Call' and x.get('fn') == 'is_open' for x in walk(g['n']))]
                if len(guards) < 2:
                    bad = e.get('l')
    rep.ob('O3', 'open|mode-recorded', bad is None and nasg > 0, rep.fn_site(R.open_fn, bad),
           'open() records m_openMode only behind the already-open guard and the open-failed guard' if bad is None and nasg > 0 else
           'open() assigns m_openMode (line %s) before it knows that a new session starts: an ignored second open() makes close() take the '
           'shutdown sequence of the wrong mode' % bad, nontrivial=True)
    # close(): first statement is the is_open() guard; both mode branches end with the file closed
    rep.count('O3')
    first_guard = True
    closes = {'read': True, 'write': True}
    for evs, out in FL.paths(close, follow=()):
        calls = [e for e in evs if e['ev'] in ('call', 'branch')]
        if not calls or not (calls[0]['ev'] == 'call' and calls[0]['n'].get('fn') == 'is_open'):
            first_guard = False
        if out not in ('normal', 'return'):
            continue
        for mode in ('read', 'write'):
            taken = [R._mode_of_cond(e['n']) for e in evs if e['ev'] == 'branch' and e['taken'] and R._mode_of_cond(e['n'])]
            if mode in taken and not any(e['ev'] == 'call' and e['n'].get('fn') == 'close' and recv_root(e['n']) == 'm_compressedFile' for e in evs):
                closes[mode] = False
    rep.ob('O3', 'close|guard', first_guard and all(closes.values()), rep.fn_site(close),
           'close(): guarded by is_open() first=%s; compressed file closed on every completing path read=%s write=%s' %
           (first_guard, closes['read'], closes['write']), nontrivial=True)
    # ~File calls close()
    rep.count('O3')
    d = [f for f in F.functions.get(FILE + '::~File', [])]
    ok = bool(d) and any(n.get('k') == 'Call' and n.get('callee') == FILE + '::close' for n in walk(d[0]['body']))
    why = '~File does not call close(): threads outlive the object'
    if ok:
        # ... on every path: close() decides itself whether there is anything to shut down (is_open()); a destructor that asks something
        # else first (good(), eof()) skips the joins exactly when a read session has delivered its last object
        for evs, out in FL.paths(d[0], follow=()):
            if not any(e['ev'] == 'call' and e['n'].get('callee') == FILE + '::close' for e in evs):
                ok = False
                why = '~File reaches its end without close() on the path %s: the worker threads are still joinable when they are destroyed (std::terminate)' % fmt_events(evs, limit=8)
                break
    rep.ob('O3', 'dtor|close', ok, rep.fn_site(d[0]) if d else None, '~File calls close() on every path' if ok else why)


def O4(F, rep, R, FL):
    """~ObjectQueue deletes and pops until empty: on every path through the destructor, each loop iteration deletes the front element
    (directly or through a local bound to it) and pops once, and the loop is left only when the queue is empty"""
    cls = R.stages['m_readWriteQueue']
    d = [f for f in methods_of(F, cls) if f.get('kind') == 'dtor']
    rep.count('O4')
    if not d:
        rep.ob('O4', 'dtor', False, None, 'ObjectQueue has no destructor: queued objects leak')
        return
    d = d[0]
    paths = FL.paths(d, follow=())
    ok = True
    why = ''
    iters = 0
    for evs, out in paths:
        # segments between loop decisions
        cur = None
        exit_on_empty = False
        for e in evs:
            is_loop_branch = e['ev'] == 'branch' and (e.get('loop') or any(x.get('k') == 'Call' and x.get('fn') == 'empty' for x in walk(e['n'])))
            if is_loop_branch:
                if cur is not None:
                    iters += 1
                    dels = [x for x in cur if x['ev'] == 'delete']
                    pops = [x for x in cur if x['ev'] == 'call' and x['n'].get('fn') == 'pop']
                    fronts = [x for x in cur if x['ev'] == 'call' and x['n'].get('fn') == 'front']
                    front_deleted = False
                    for x in dels:
                        tgt = deep_resolve(x['n'].get('sub'), d)
                        if any(y.get('k') == 'Call' and y.get('fn') == 'front' for y in walk(tgt)):
                            front_deleted = True
                    if not (len(pops) == 1 and front_deleted and fronts):
                        ok = False
                        why = 'an iteration performs %d delete(s) of the front element and %d pop(s)' % (int(front_deleted), len(pops))
                    elif evs.index(dels[0]) > evs.index(pops[0]) and not _bound_before(dels[0], pops[0], evs, d):
                        ok = False
                        why = 'the element is popped before the pointer to delete was taken'
                    cur = None
                has_empty = any(x.get('k') == 'Call' and x.get('fn') == 'empty' for x in walk(e['n']))
                if has_empty:
                    pol = _polarity(e['n'], [x for x in walk(e['n']) if x.get('k') == 'Call' and x.get('fn') == 'empty'][0])
                    empty_now = (e['taken'] == pol) if pol is not None else None
                    if empty_now is False:
                        cur = []
                    elif empty_now is True:
                        exit_on_empty = True
                elif e.get('loop') and e['taken']:
                    cur = []
            elif cur is not None:
                cur.append(e)
        if cur:
            # the path ends inside an unrolled iteration (bounded unrolling): judge what was seen
            pass
    if iters == 0:
        ok = False
        why = 'no drain loop'
    rep.ob('O4', 'dtor', ok, rep.fn_site(d), '~ObjectQueue: ' + ('every iteration deletes the front element and pops it (%d iterations over all paths)' % iters if ok else why),
           nontrivial=True)


def _bound_before(del_ev, pop_ev, evs, fn):
    """the deleted pointer was read from front() into a local before the pop"""
    sub = strip_all_casts(del_ev['n'].get('sub'))
    if isinstance(sub, dict) and sub.get('k') == 'Ref' and sub.get('dk') == 'local':
        decl = [i for i, e in enumerate(evs) if e['ev'] == 'decl' and e['var']['id'] == sub['id']]
        return bool(decl) and decl[-1] < evs.index(pop_ev)
    return False


# ---------------------------------------------------------------------- C1 commit completeness, E1 check-before-commit
def good_branch(e, stage):
    """branch event on  stage.good()  -> True if the path continues on the 'good' side"""
    if e['ev'] != 'branch':
        return None
    calls = [x for x in walk(e['n']) if x.get('k') == 'Call' and x.get('fn') == 'good' and recv_root(x) == stage]
    if not calls:
        return None
    pol = _polarity(e['n'], calls[0])
    if pol is None:
        return None
    return e['taken'] == pol


def _polarity(cond, target):
    """True if `cond` is true exactly when the boolean call `target` is true, False if exactly when it is false, None if unknown.
    Understands !x, x == true/false, x != true/false, and implicit conversions."""
    c = strip(cond)
    while isinstance(c, dict) and c.get('k') == 'Cast':
        c = strip(c['sub'])
    if c is target:
        return True
    if not isinstance(c, dict):
        return None
    if c.get('k') == 'Un' and c.get('op') == '!':
        p = _polarity(c['sub'], target)
        return None if p is None else (not p)
    if c.get('k') == 'Bin' and c.get('op') in ('==', '!='):
        for a, b in ((c['lhs'], c['rhs']), (c['rhs'], c['lhs'])):
            bb = strip_all_casts(b)
            if isinstance(bb, dict) and bb.get('lit') == 'bool':
                p = _polarity(a, target)
                if p is None:
                    return None
                same = bool(bb.get('v')) == (c['op'] == '==')
                return p if same else (not p)
    return None


def E1(F, rep, FL):
    """decode -> good() on its true side -> commit, on every path; decoded header fields not used before the check"""
    pairs = [
        # (function, decoding call fn, object expr test, stream member, commit predicate, label)
        (U2Q, 'header', 'm_uncompressedFile'),
        (U2Q, 'object', 'm_uncompressedFile'),
        (C2U, 'header', 'm_compressedFile'),
        (C2U, 'container', 'm_compressedFile'),
    ]
    for (q, what, stage) in pairs:
        fn = F.fn(q)
        rep.saw_function(q)
        rep.count('E1')
        paths = FL.paths(fn, follow=())
        rep.analysed['paths'] += len(paths)
        bad = None
        ndec = 0
        for evs, out in paths:
            # decode events: X.read(stage) calls (codec read taking the stage as stream argument)
            decs = [i for i, e in enumerate(evs) if e['ev'] == 'call' and e['n'].get('fn') == 'read' and
                    any(field_root(member_path(a)) == stage for a in e['n'].get('args', []))]
            if what == 'header':
                decs = decs[:1]
            else:
                decs = decs[1:2]
            if not decs:
                continue
            ndec += 1
            d = decs[0]
            # what was decoded
            dobj = strip_all_casts(evs[d]['n'].get('obj'))
            dvid = dobj.get('id') if isinstance(dobj, dict) else None
            checked = False
            for i in range(d + 1, len(evs)):
                e = evs[i]
                g = good_branch(e, stage)
                if g is True:
                    checked = True
                    break
                if g is False:
                    break
                # use of the decoded thing before the check
                if e['ev'] == 'call' and e['n'].get('fn') == 'good':
                    continue
                if e['ev'] in ('call', 'use', 'assign'):
                    n = e['n']
                    if e['ev'] == 'use' and n.get('k') == 'Member' and local_id(n.get('base')) == dvid and dvid is not None:
                        bad = ('field %s of the decoded %s is used' % (n.get('name'), what), e.get('l'), evs)
                        break
                    if e['ev'] == 'call' and (n.get('fn') in ('write', 'seekg', 'uncompress') or n.get('k') == 'New') and n.get('fn') != 'good':
                        bad = ('%s() runs' % n.get('fn'), e.get('l'), evs)
                        break
            if bad:
                break
            if not checked and out in ('normal', 'return'):
                # path ended or left the good side: fine only if it left through return/throw without committing
                commits = [e for e in evs[d:] if e['ev'] == 'call' and e['n'].get('fn') == 'write' and recv_root(e['n']) in ('m_readWriteQueue', 'm_uncompressedFile')]
                if commits:
                    bad = ('commit without a good() check', commits[0].get('l'), evs)
                    break
        if ndec == 0:
            raise AnalysisBroken('E1: no decode of %s found in %s' % (what, q))
        rep.ob('E1', '%s|%s' % (short(q), what), bad is None, rep.fn_site(fn, bad[1] if bad else None),
               '%s: the decoded %s is used only after %s.good() was passed on its true side (%d paths)' % (short(q), what, stage, ndec) if bad is None else
               '%s: %s (line %s) before %s.good() was checked after decoding the %s - a short read is committed' % (short(q), bad[0], bad[1], stage, what),
               nontrivial=True)


def C1(F, rep, FL):
    """every decoded object reaches the queue; every dequeued object is encoded before it is deleted"""
    fn = F.fn(U2Q)
    rep.count('C1')
    bad = None
    n = 0
    for evs, out in FL.paths(fn, follow=()):
        # paths on which the post-decode good() check passes
        decs = [i for i, e in enumerate(evs) if e['ev'] == 'call' and e['n'].get('fn') == 'read' and
                any(field_root(member_path(a)) == 'm_uncompressedFile' for a in e['n'].get('args', []))]
        if len(decs) < 2:
            continue
        d = decs[1]
        vid = local_id(evs[d]['n'].get('obj'))
        passed = [i for i in range(d, len(evs)) if good_branch(evs[i], 'm_uncompressedFile') is True]
        if not passed:
            continue
        n += 1
        # the same object under its other names: raw aliases, and the smart owner it was taken from (T * obj = owner.get())
        same = {vid} | set(aliases_of(fn, vid))
        for e_ in evs:
            if e_['ev'] == 'decl' and e_['var']['id'] == vid and e_['var'].get('init') is not None:
                i_ = strip_all_casts(e_['var']['init'])
                if isinstance(i_, dict) and i_.get('k') == 'Call' and i_.get('fn') == 'get' and i_.get('obj') is not None and local_id(i_['obj']) is not None:
                    same.add(local_id(i_['obj']))

        def _is_obj(a_):
            if local_id(a_) in same:
                return True
            x_ = strip_all_casts(a_)
            return isinstance(x_, dict) and x_.get('k') == 'Call' and x_.get('fn') == 'release' and x_.get('obj') is not None and local_id(x_['obj']) in same
        commit = [e for e in evs[passed[0]:] if e['ev'] == 'call' and e['n'].get('fn') == 'write' and recv_root(e['n']) == 'm_readWriteQueue' and
                  any(_is_obj(a) for a in e['n'].get('args', []))]
        if not commit and out in ('normal', 'return'):
            bad = evs
            break
    rep.ob('C1', 'decode->queue', bad is None and n > 0, rep.fn_site(fn),
           'uncompressedFile2ReadWriteQueue: every successfully decoded object is pushed to the queue (%d paths)' % n if bad is None and n > 0 else
           'a decoded object can be dropped silently: ' + (fmt_events(bad) if bad else 'no decoding path found'), nontrivial=True)
    fn = F.fn(Q2U)
    rep.count('C1')
    bad = None
    n = 0
    for evs, out in FL.paths(fn, follow=()):
        decl = [e for e in evs if e['ev'] == 'decl' and e['var'].get('t', '').endswith('*')]
        if not decl:
            continue
        vid = decl[0]['var']['id']
        null = any(e['ev'] == 'branch' and is_null_test(e['n'], vid) is not None and (is_null_test(e['n'], vid) == e['taken']) for e in evs)
        if null:
            continue
        n += 1
        enc = [i for i, e in enumerate(evs) if e['ev'] == 'call' and e['n'].get('fn') == 'write' and local_id(e['n'].get('obj')) == vid and
               any(field_root(member_path(a)) == 'm_uncompressedFile' for a in e['n'].get('args', []))]
        dele = [i for i, e in enumerate(evs) if e['ev'] == 'delete' and local_id(e['n'].get('sub')) == vid]
        if out in ('normal', 'return') and (not enc or (dele and dele[0] < enc[0])):
            bad = evs
            break
    rep.ob('C1', 'queue->encode', bad is None and n > 0, rep.fn_site(fn),
           'readWriteQueue2UncompressedFile: every dequeued object is encoded into the stream before it is deleted (%d paths)' % n if bad is None and n > 0 else
           'a dequeued object is dropped without being encoded: ' + (fmt_events(bad) if bad else 'no path'), nontrivial=True)


def A1(F, rep, FL=None):
    """the File API hands queue results through unchanged: read() returns what the queue returned, write() forwards its argument,
    good()/eof() report the queue's state (the end-of-file indication the application sees is the queue's)"""
    specs = [('read', 'read', True), ('write', 'write', False), ('good', 'good', True), ('eof', 'eof', True)]
    for (api, qm, returns) in specs:
        fns = [f for f in F.functions.get(FILE + '::' + api, [])]
        if not fns:
            raise AnalysisBroken('File::%s vanished' % api)
        fn = fns[0]
        rep.count('A1')
        calls = [n for n in walk(fn['body']) if n.get('k') == 'Call' and n.get('ck') == 'member' and recv_root(n) == 'm_readWriteQueue']
        ok = len(calls) == 1 and calls[0]['fn'] == qm
        why = '%d call(s) on the queue' % len(calls)
        if ok and returns:
            rets = [r for r in walk(fn['body']) if r.get('k') == 'Return']
            # the returned value is the call itself or a local initialised from it and never reassigned
            def from_call(v):
                v = strip_all_casts(v)
                if v is calls[0]:
                    return True
                if isinstance(v, dict) and v.get('k') == 'Ref' and v.get('dk') == 'local':
                    inits = [x.get('init') for d in walk(fn['body']) if d.get('k') == 'Decl' for x in d['vars'] if x['id'] == v['id']]
                    reass = [b for b in walk(fn['body']) if b.get('k') == 'Bin' and b.get('op') == '=' and strip_all_casts(b['lhs']).get('id') == v['id']]
                    return len(inits) == 1 and strip_all_casts(inits[0]) is calls[0] and not reass
                return False
            ok = len(rets) == 1 and from_call(rets[0].get('value'))
            why = 'returns the queue result unchanged' if ok else 'does not return the queue result unchanged'
        elif ok:
            a = calls[0].get('args', [])
            ok = len(a) == 1 and local_id(a[0]) == fn['params'][0]['id']
            why = 'forwards its argument to the queue' if ok else 'does not forward its argument unchanged'
            if ok:
                # ... unconditionally: the hand-over is a top-level statement of the function, not one branch of several
                top = fn['body'].get('body', []) if fn['body'].get('k') == 'Compound' else [fn['body']]
                skipped = FL is not None and any(out in ('normal', 'return') and not any(e['ev'] == 'call' and e['n'] is calls[0] for e in evs)
                                                 for evs, out in FL.paths(fn, follow=()))
                if skipped or not any(strip_all_casts(st_) is calls[0] for st_ in top):
                    ok = False
                    why = 'forwards its argument to the queue only on some paths: objects that take another way are never written (or written elsewhere, out of order)'
        rep.ob('A1', 'File::%s' % api, ok, rep.fn_site(fn), 'File::%s %s (m_readWriteQueue.%s)' % (api, why, qm), nontrivial=True)


# ---------------------------------------------------------------------- E2 zlib discipline, B3/B4 container invariant
def E2B3(F, rep, FL, rules):
    lc = 'Vector::BLF::LogContainer'
    un = F.fn(lc + '::uncompress')
    co = F.fn(lc + '::compress')
    rep.saw_function(un['name'])
    rep.saw_function(co['name'])
    upaths = FL.paths(un, follow=())
    rep.analysed['paths'] += len(upaths)
    if 'E2' in rules:
        rep.count('E2')
        bad = None
        n = 0
        for evs, out in upaths:
            zi = [i for i, e in enumerate(evs) if e['ev'] == 'call' and e['n'].get('fn') == 'uncompress' and not e['n'].get('calleeInRoot')]
            if not zi:
                continue
            n += 1
            if out not in ('normal', 'return'):
                continue
            post = evs[zi[0]:]
            zdecl = [e for e in post if e['ev'] == 'decl' and any(x is evs[zi[0]]['n'] for x in walk(e['var'].get('init') or {}))]
            rv = zdecl[0]['var']['id'] if zdecl else None
            ok_ret = any(e['ev'] == 'branch' and not e['taken'] and any(x.get('k') == 'Ref' and x.get('id') == rv for x in walk(e['n'])) and
                         any(x.get('k') == 'Bin' and x.get('op') == '!=' for x in walk(e['n'])) and any(x.get('v') == 0 for x in walk(e['n']))
                         for e in post)
            ok_size = any(e['ev'] == 'branch' and not e['taken'] and any(x.get('k') == 'Member' and x.get('name') == 'uncompressedFileSize' for x in walk(e['n'])) and
                          any(x.get('k') == 'Bin' and x.get('op') == '!=' for x in walk(e['n'])) for e in post)
            if not (ok_ret and ok_size):
                bad = (ok_ret, ok_size, evs)
                break
        if n == 0:
            raise AnalysisBroken('E2: ::uncompress call not found in LogContainer::uncompress')
        rep.ob('E2', 'uncompress|checks', bad is None, rep.fn_site(un),
               'LogContainer::uncompress: every normal exit after ::uncompress passed retVal == Z_OK and size == uncompressedFileSize' if bad is None else
               'LogContainer::uncompress can return normally after ::uncompress without checking %s: %s' %
               (' and '.join(x for x, ok in (('the return value', bad[0]), ('the inflated size', bad[1])) if not ok), fmt_events(bad[2])), nontrivial=True)
        rep.count('E2')
        bad = None
        n = 0
        for evs, out in FL.paths(co, follow=()):
            zi = [i for i, e in enumerate(evs) if e['ev'] == 'call' and e['n'].get('fn') == 'compress2']
            if not zi:
                continue
            n += 1
            if out not in ('normal', 'return'):
                continue
            post = evs[zi[0]:]
            zdecl = [e for e in post if e['ev'] == 'decl' and any(x is evs[zi[0]]['n'] for x in walk(e['var'].get('init') or {}))]
            rv = zdecl[0]['var']['id'] if zdecl else None
            if not any(e['ev'] == 'branch' and not e['taken'] and any(x.get('k') == 'Ref' and x.get('id') == rv for x in walk(e['n'])) for e in post):
                bad = evs
        if n == 0:
            raise AnalysisBroken('E2: ::compress2 call not found in LogContainer::compress')
        rep.ob('E2', 'compress|checks', bad is None, rep.fn_site(co),
               'LogContainer::compress: the result of ::compress2 is tested on every normal exit' if bad is None else
               'LogContainer::compress ignores the result of ::compress2: ' + fmt_events(bad), nontrivial=True)
    if 'B3' in rules:
        # every normal exit of uncompress() has re-established uncompressedFile.size() == uncompressedFileSize after the last write to either
        rep.count('B3')
        bad = None
        n = 0
        for evs, out in upaths:
            if out not in ('normal', 'return'):
                continue
            n += 1
            state = 'unknown'
            for e in evs:
                nn = e['n'] if 'n' in e else None
                if e['ev'] == 'call' and nn.get('fn') == 'resize' and (member_path(nn.get('obj')) or (None,))[-1] == 'uncompressedFile':
                    a = strip_all_casts(nn['args'][0])
                    # resize(size) where size was initialised from uncompressedFileSize, or resize(uncompressedFileSize)
                    state = 'established' if _derives_from_field(a, 'uncompressedFileSize', evs) else 'unknown'
                elif e['ev'] == 'assign' and nn.get('k') == 'Call' and nn.get('op') == '=' and (member_path(nn['args'][0]) or (None,))[-1] == 'uncompressedFile':
                    state = 'unknown'
                elif e['ev'] == 'assign' and nn.get('k') == 'Bin' and (member_path(nn['lhs']) or (None,))[-1] == 'uncompressedFileSize':
                    r = strip_all_casts(nn['rhs'])
                    if isinstance(r, dict) and r.get('k') == 'Call' and r.get('fn') == 'size' and (member_path(r.get('obj')) or (None,))[-1] == 'uncompressedFile':
                        state = 'established'
                    else:
                        state = 'unknown'
                elif e['ev'] == 'branch' and not e['taken']:
                    # an equality check that throws on the taken side
                    names = {x.get('name') for x in walk(e['n']) if x.get('k') in ('Member', 'Ref')}
                    if 'uncompressedFileSize' in names and any(x.get('k') == 'Bin' and x.get('op') == '!=' for x in walk(e['n'])) and \
                            (any(x.get('k') == 'Call' and x.get('fn') == 'size' for x in walk(e['n'])) or state == 'established'):
                        state = 'established'
            if state != 'established':
                bad = evs
                break
        rep.ob('B3', 'uncompress|size-invariant', bad is None and n > 0, rep.fn_site(un),
               'LogContainer::uncompress: uncompressedFile.size() == uncompressedFileSize holds at each of its %d normal exits' % n if bad is None else
               'LogContainer::uncompress returns with uncompressedFile not sized to uncompressedFileSize (UncompressedFile::read indexes the buffer '
               'by that field): ' + fmt_events(bad, limit=20), nontrivial=True)
    if 'B4' in rules:
        # (ptr,len) pairs of ::uncompress / ::compress2
        from rules_pipeline import flat_nodes
        for fn, zname in ((un, 'uncompress'), (co, 'compress2')):
            flat = list(flat_nodes(F, fn))
            for n in flat:
                if n.get('k') == 'Call' and n.get('fn') == zname and not n.get('calleeInRoot'):
                    rep.count('B4')
                    a = n['args']
                    dst = member_path(strip_all_casts(a[0]).get('obj')) if strip_all_casts(a[0]).get('k') == 'Call' else None
                    src = member_path(strip_all_casts(a[2]).get('obj')) if strip_all_casts(a[2]).get('k') == 'Call' else None
                    # destination length variable must be what the destination was resized to just before
                    dl = strip_all_casts(a[1])
                    dlv = dl.get('sub') if dl.get('k') == 'Un' else None
                    dlid = local_id(dlv) if dlv else None
                    pos_n = [i_ for i_, x in enumerate(flat) if x is n][0]
                    resized = [x for x in flat[:pos_n] if x.get('k') == 'Call' and x.get('fn') == 'resize' and member_path(x.get('obj')) == dst]
                    ok_dst = bool(resized) and local_id(resized[-1]['args'][0]) == dlid and dlid is not None
                    sl = strip_all_casts(a[3])
                    sname = (member_path(sl) or (None,))[-1]
                    ok_src = src is not None and sname in ('compressedFileSize', 'uncompressedFileSize') and sname.startswith(src[-1].replace('File', ''))
                    rep.ob('B4', '%s|dst' % zname, ok_dst, rep.fn_site(fn, n['l']),
                           '::%s destination %s was resized to the length variable passed (%s)' % (zname, '.'.join(dst or ('?',)), ok_dst), nontrivial=True)
                    rep.ob('B4', '%s|src' % zname, ok_src, rep.fn_site(fn, n['l']),
                           '::%s source %s is passed with length %s' % (zname, '.'.join(src or ('?',)), sname), nontrivial=True)
        # LogContainer::read establishes compressedFile.size() == compressedFileSize before uncompress uses the pair
        rd = F.fn(lc + '::read')
        rep.count('B4')
        ok = False
        for n in walk(rd['body']):
            if n.get('k') == 'Call' and n.get('fn') == 'resize' and (member_path(n.get('obj')) or (None,))[-1] == 'compressedFile':
                ok = (member_path(strip_all_casts(n['args'][0])) or (None,))[-1] == 'compressedFileSize'
        rep.ob('B4', 'read|compressed-size', ok, rep.fn_site(rd), 'LogContainer::read sizes compressedFile to compressedFileSize (the pair passed to ::uncompress)',
               nontrivial=True)


def _derives_from_field(a, field, evs):
    if not isinstance(a, dict):
        return False
    if (member_path(a) or (None,))[-1] == field:
        return True
    vid = local_id(a)
    if vid is None:
        return False
    for e in evs:
        if e['ev'] == 'decl' and e['var']['id'] == vid:
            return any((member_path(x) or (None,))[-1] == field for x in walk(e['var'].get('init') or {}))
    return False


# ---------------------------------------------------------------------- H1 / H2 statistics
def H1(F, rep, FL):
    specs = [(C2U, 'currentUncompressedFileSize', 'm_uncompressedFile', 'container'),
             (U2C, 'currentUncompressedFileSize', 'm_compressedFile', 'container'),
             (U2Q, 'currentObjectCount', 'm_readWriteQueue', 'object'),
             (Q2U, 'currentObjectCount', 'm_uncompressedFile', 'object')]
    for (q, counter, sink, kind) in specs:
        fn = F.fn(q)
        rep.count('H1')
        bad = None
        n = 0
        for evs, out in FL.paths(fn, follow=()):
            if out not in ('normal', 'return'):
                continue
            commits = [i for i, e in enumerate(evs) if e['ev'] == 'call' and e['n'].get('fn') == 'write' and
                       (recv_root(e['n']) == sink or any(field_root(member_path(a)) == sink for a in e['n'].get('args', [])))]
            if not commits:
                # nothing committed on this path: nothing may be counted either
                stray = [e for e in evs if e['ev'] == 'assign' and _assign_target(e['n']) == counter]
                if stray:
                    bad = ('%s is updated (line %s) on a path that commits no %s' % (counter, stray[0].get('l'), kind), evs)
                    break
                # ... and a container that was taken out of the file is handed on (and counted): the writer counted every container it
                # stored, empty ones included - a reader that steps over some of them ends with other totals than the header states
                taken_ = [e for e in evs if e['ev'] == 'call' and e['n'].get('callee') == 'Vector::BLF::LogContainer::read' and
                          any(field_root(member_path(a)) == 'm_compressedFile' for a in e['n'].get('args', []))]
                if q == C2U and taken_:
                    bad = ('a log container read from the file (line %s) is dropped on a path that returns normally: it is neither handed on nor counted'
                           % taken_[0].get('l'), evs)
                    break
                continue
            n += 1
            bumps = [e for e in evs if e['ev'] == 'assign' and _assign_target(e['n']) == counter]
            guarded = True
            if kind == 'object':
                # bump happens exactly when objectType != Unknown115
                g = [e for e in evs if e['ev'] == 'branch' and any(x.get('name') == 'Unknown115' for x in walk(e['n']))]
                if not g:
                    guarded = False
                else:
                    expect = 1 if g[0]['taken'] else 0
                    if len(bumps) != expect:
                        bad = ('%d increments of %s on a path where the Unknown115 test is %s' % (len(bumps), counter, g[0]['taken']), evs)
                        break
                    continue
            if len(bumps) != 1 or not guarded:
                bad = ('%d updates of %s on a committing path' % (len(bumps), counter), evs)
                break
            if kind == 'container':
                b_ = deep_resolve(bumps[0]['n'], fn)     # const auto addedSize = ...; counter += addedSize;
                has_hdr = any(x.get('k') == 'Call' and x.get('fn') == 'internalHeaderSize' for x in walk(b_))
                has_fld = any(x.get('k') == 'Member' and x.get('name') == 'uncompressedFileSize' for x in walk(b_))
                # uncompressedFile.size() stands for the field only while the size invariant established by
                # resize(uncompressedFileSize) still holds: nothing called in between may modify the buffer
                via_size = [x for x in walk(b_) if x.get('k') == 'Call' and x.get('fn') == 'size' and
                            (member_path(x.get('obj')) or (None,))[-1] == 'uncompressedFile']
                if not has_fld and via_size:
                    bi = evs.index(bumps[0])
                    est = [i for i, e in enumerate(evs[:bi]) if e['ev'] == 'call' and e['n'].get('fn') == 'resize' and
                           (member_path(e['n'].get('obj')) or (None,))[-1] == 'uncompressedFile' and
                           (member_path(strip_all_casts(e['n']['args'][0])) or (None,))[-1] == 'uncompressedFileSize']
                    if est:
                        clobber = None
                        for e in evs[est[-1] + 1:bi]:
                            if e['ev'] == 'call' and e['n'].get('calleeInRoot'):
                                for c in FL.resolve(e['n']):
                                    if _modifies_member(c, 'uncompressedFile'):
                                        clobber = c['name']
                        has_fld = clobber is None
                        if clobber:
                            bad = ('the update adds uncompressedFile.size(), but %s may modify that buffer after it was sized' % short(clobber), evs)
                            break
                if not (has_hdr and has_fld):
                    bad = ('the update does not add internalHeaderSize() + the uncompressed payload size of that container', evs)
                    break
        rep.ob('H1', '%s|%s' % (short(q), counter), bad is None and n > 0, rep.fn_site(fn),
               '%s: %s is updated exactly once per committed %s (%d committing paths)' % (short(q), counter, kind, n) if bad is None and n > 0 else
               '%s: %s' % (short(q), (bad[0] + ': ' + fmt_events(bad[1])) if bad else 'no committing path found'), nontrivial=True)


def _modifies_member(fn, name):
    for n in walk(fn['body']):
        if n.get('k') == 'Call' and n.get('ck') == 'operator' and n.get('op') == '=' and n.get('args') and (member_path(n['args'][0]) or (None,))[-1] == name:
            return True
        if n.get('k') == 'Call' and n.get('fn') in ('resize', 'clear', 'swap', 'assign', 'push_back', 'shrink_to_fit', 'erase') and \
                (member_path(n.get('obj')) or (None,))[-1] == name:
            return True
        if n.get('k') == 'Call' and n.get('callee') == 'std::move' and n.get('args') and (member_path(n['args'][0]) or (None,))[-1] == name:
            return True
    return False


def _assign_target(n):
    if n.get('k') == 'Bin':
        return (member_path(n['lhs']) or (None,))[-1]
    if n.get('k') == 'Un':
        return (member_path(n['sub']) or (None,))[-1]
    if n.get('k') == 'Call' and n.get('args'):
        return (member_path(n['args'][0]) or (None,))[-1]
    return None


def H2(F, rep, R, FL):
    close = R.close_fn
    rep.count('H2')
    bad = None
    n = 0
    for evs, out in FL.paths(close, follow=()):
        taken = [R._mode_of_cond(e['n']) for e in evs if e['ev'] == 'branch' and e['taken'] and R._mode_of_cond(e['n'])]
        if taken != ['write'] or out not in ('normal', 'return'):
            continue
        n += 1

        def idx(pred):
            for i, e in enumerate(evs):
                if pred(e):
                    return i
            return None
        joins = [i for i, e in enumerate(evs) if e['ev'] == 'call' and e['n'].get('callee') in ('std::thread::join', 'std::thread::joinable')]
        last_join = max(joins) if joins else None
        a_fs = idx(lambda e: e['ev'] == 'assign' and _stat_target(e['n']) == 'fileSize')
        a_us = idx(lambda e: e['ev'] == 'assign' and _stat_target(e['n']) == 'uncompressedFileSize')
        a_oc = idx(lambda e: e['ev'] == 'assign' and _stat_target(e['n']) == 'objectCount')
        seek = idx(lambda e: e['ev'] == 'call' and e['n'].get('fn') == 'seekp' and recv_root(e['n']) == 'm_compressedFile')
        wr = [i for i, e in enumerate(evs) if e['ev'] == 'call' and e['n'].get('fn') == 'write' and recv_root(e['n']) == 'fileStatistics']
        cl = idx(lambda e: e['ev'] == 'call' and e['n'].get('fn') == 'close' and recv_root(e['n']) == 'm_compressedFile')
        proc = [i for i, e in enumerate(evs) if e['ev'] == 'call' and e['n'].get('callee') in (Q2U, U2C)]
        need = [a_fs, a_us, a_oc, seek, cl, last_join]
        if any(x is None for x in need) or not wr:
            bad = ('a step is missing (fileSize=%s uncompressedFileSize=%s objectCount=%s seekp=%s write=%s close=%s)' %
                   (a_fs is not None, a_us is not None, a_oc is not None, seek is not None, bool(wr), cl is not None), evs)
            break
        order_ok = last_join < min(a_fs, a_us, a_oc) and max(a_fs, a_us, a_oc) < seek < wr[-1] < cl and all(p < min(a_fs, a_us, a_oc) for p in proc)
        # sources: fileSize := tellp(), uncompressedFileSize := currentUncompressedFileSize, objectCount := currentObjectCount
        rs = lambda i_: deep_resolve(evs[i_]['n'], close)
        src_ok = any(x.get('fn') == 'tellp' and recv_root(x) == 'm_compressedFile' for x in walk(rs(a_fs))) and \
            any(x.get('name') == 'currentUncompressedFileSize' for x in walk(rs(a_us))) and \
            any(x.get('name') == 'currentObjectCount' for x in walk(rs(a_oc)))
        # a hoisted tellp() must still be taken after the restore-point pass and before the rewind
        tp = [i for i, e in enumerate(evs) if e['ev'] == 'call' and e['n'].get('fn') == 'tellp' and recv_root(e['n']) == 'm_compressedFile']
        if tp and not (all(p_ < tp[-1] for p_ in proc) and tp[-1] < seek):
            src_ok = False
        # seekp(0)
        z = strip_all_casts(evs[seek]['n']['args'][0])
        zero = any(x.get('v') == 0 for x in walk(evs[seek]['n']['args'][0]))
        if not (order_ok and src_ok and zero):
            bad = ('order after joins=%s, sources=%s, seekp(0)=%s' % (order_ok, src_ok, zero), evs)
            break
        # restore-point offset precedes the restore-point container write
        rp = idx(lambda e: e['ev'] == 'assign' and _stat_target(e['n']) == 'restorePointsOffset')
        if proc and (rp is None or rp > min(proc)):
            bad = ('restorePointsOffset is not taken before the restore-point container is written', evs)
            break
        # the offset is a position of the compressed file taken as it is (no arithmetic on it), and it designates a container that this very
        # close() goes on to write
        rps = [e for e in evs if e['ev'] == 'assign' and _stat_target(e['n']) == 'restorePointsOffset']
        for e in rps:
            n_ = e['n']
            plain = (n_.get('k') == 'Bin' and n_.get('op') == '=') or (n_.get('k') == 'Call' and n_.get('op') == '=')
            from_tellp = any(x.get('k') == 'Call' and x.get('fn') == 'tellp' and recv_root(x) == 'm_compressedFile' for x in walk(rs(evs.index(e))))
            if not (plain and from_tellp):
                bad = ('restorePointsOffset is changed by something other than a plain assignment of m_compressedFile.tellp() (line %s)' % e.get('l'), evs)
                break
        if bad:
            break
        if rps and not proc:
            bad = ('restorePointsOffset is set, but no container is written behind it on this path (the offset then points at, or into, a container '
                   'the compression thread wrote earlier)', evs)
            break
    rep.ob('H2', 'close|write', bad is None and n > 0, rep.fn_site(close),
           'close() [write]: after both joins and the restore-point pass, fileSize := tellp(), uncompressedFileSize / objectCount := the running counters, '
           'then seekp(0), fileStatistics.write, close (%d paths)' % n if bad is None and n > 0 else
           'close() [write]: %s' % ((bad[0] + ': ' + fmt_events(bad[1], limit=24)) if bad else 'no completing path'), nontrivial=True)
    # open(): statisticsSize added once per mode branch; a call that opens nothing (the File is open already) leaves the counters alone
    rep.count('H2')
    why = None
    nb = 0
    COUNTERS = ('currentUncompressedFileSize', 'currentObjectCount')

    def _is_zero(n_):
        r_ = n_.get('rhs') if n_.get('k') == 'Bin' else (n_['args'][1] if len(n_.get('args', [])) == 2 else None)
        return r_ is not None and n_.get('op') == '=' and any(x.get('v') == 0 for x in walk(r_)) and not any(x.get('k') == 'Member' for x in walk(r_))

    for evs, out in FL.paths(R.open_fn, follow=()):
        m = [R._mode_of_cond(e['n']) for e in evs if e['ev'] == 'branch' and e['taken'] and R._mode_of_cond(e['n'])]
        asg = [e for e in evs if e['ev'] == 'assign' and _assign_target(e['n']) in COUNTERS]
        if m and out in ('normal', 'return'):
            nb += 1
            seq = [e for e in asg if _assign_target(e['n']) == 'currentUncompressedFileSize']
            resets = [e for e in seq if _is_zero(e['n'])]
            bumps = [e for e in seq if not _is_zero(e['n'])]
            if len(bumps) != 1 or not any(x.get('name') == 'statisticsSize' for x in walk(bumps[0]['n'])) or \
                    any(seq.index(r_) > seq.index(bumps[0]) for r_ in resets):
                why = 'the running uncompressed size is not started with exactly one += fileStatistics.statisticsSize on a path that opens a file (%s)' % fmt_events(evs, limit=14)
        elif not m:
            already = []
            for e in evs:
                if e['ev'] != 'branch':
                    continue
                calls = [x for x in walk(e['n']) if x.get('k') == 'Call' and x.get('fn') == 'is_open' and
                         (x.get('obj') is None or (strip_all_casts(x['obj']) or {}).get('k') == 'This')]
                if calls and _polarity(e['n'], calls[0]) is not None and _polarity(e['n'], calls[0]) == bool(e['taken']):
                    already.append(e)
            if already and asg:
                why = ('open() on a File that is already open returns without opening anything, but changes the running counter %s on the way (line %s): '
                       'the statistics of the session in progress are lost' % (_assign_target(asg[0]['n']), asg[0].get('l')))
    okb = why is None and nb > 0
    rep.ob('H2', 'open|statisticsSize', okb, rep.fn_site(R.open_fn),
           'open(): currentUncompressedFileSize += fileStatistics.statisticsSize exactly once on each of the %d starting paths; the already-open path '
           'leaves the counters alone' % nb if okb else 'open(): %s' % (why or 'no path opens a file'), nontrivial=True)


def H3(F, rep):
    """caller-supplied header fields are stored verbatim: the library itself assigns only the fields it owns (the three totals and
    the restore-point offset); every other field of fileStatistics is written by nobody but the caller and FileStatistics::read"""
    own = {'fileSize', 'uncompressedFileSize', 'objectCount', 'restorePointsOffset'}
    rep.count('H3')
    bad = []
    for name, fns in F.functions.items():
        for fn in fns:
            if fn.get('class') != FILE:
                continue
            for n in walk(fn['body']):
                t = None
                if n.get('k') == 'Bin' and n.get('op') in ('=', '+=', '-=', '|=', '&='):
                    t = _stat_target(n)
                elif n.get('k') == 'Un' and n.get('op') in ('++', '--'):
                    p_ = member_path(n['sub'])
                    t = p_[-1] if p_ and len(p_) >= 2 and p_[-2] == 'fileStatistics' else None
                elif n.get('k') == 'Call' and n.get('ck') == 'operator' and n.get('op') in ('=', '+=') and n.get('args'):
                    t = _stat_target(n)
                if t and t not in own:
                    bad.append('%s assigns fileStatistics.%s (line %s)' % (short(fn['name']), t, n.get('l')))
    rep.ob('H3', 'fileStatistics|owned-fields', not bad, None,
           'File assigns only fileStatistics.{%s}; all other header fields keep what the caller supplied' % ', '.join(sorted(own)) if not bad else
           'caller-supplied header fields are overwritten: ' + '; '.join(bad), nontrivial=True)


def H4(F, rep):
    """a running counter is at least as wide as the header field it is stored into (and than what is added to it per step): a
    narrower accumulator wraps for long logs while every shorter one behaves identically"""
    frec = F.rec(FILE)
    srec = F.rec('Vector::BLF::FileStatistics')
    fw = {}
    for f in frec['fields']:
        if f.get('kind') == 'int':
            fw[f['name']] = (f['size'], f['t'])
        elif isinstance(f.get('elem'), dict) and f['elem'].get('kind') == 'int':
            fw[f['name']] = (f['elem']['size'], f['t'])
    sw = {f['name']: (f['size'], f['t']) for f in srec['fields'] if f.get('kind') == 'int'}
    seen = 0
    for fn in methods_of(F, FILE):
        for n in walk(fn['body']):
            t = None
            rhs = None
            if n.get('k') == 'Bin' and n.get('op') == '=':
                t, rhs = _stat_target(n), n['rhs']
            elif n.get('k') == 'Call' and n.get('ck') == 'operator' and n.get('op') == '=' and len(n.get('args', [])) == 2:
                t, rhs = _stat_target(n), n['args'][1]
            if not t or t not in sw:
                continue
            srcs = sorted({x.get('name') for x in walk(deep_resolve(rhs, fn)) if x.get('k') == 'Member' and x.get('name') in fw and
                           isinstance(strip_all_casts(x.get('base')), dict) and strip_all_casts(x.get('base')).get('k') == 'This'})
            for sname in srcs:
                seen += 1
                rep.count('H4')
                ok = fw[sname][0] >= sw[t][0]
                rep.ob('H4', 'width|%s<-%s' % (t, sname), ok, rep.fn_site(fn, n.get('l')),
                       'fileStatistics.%s (%d bytes) is taken from %s (%s, %d bytes)' % (t, sw[t][0], sname, fw[sname][1], fw[sname][0]) if ok else
                       'fileStatistics.%s (%d bytes) is taken from the running counter %s, which is only %d bytes wide (%s): the total wraps for logs '
                       'beyond 2^%d while every shorter log is unaffected' % (t, sw[t][0], sname, fw[sname][0], fw[sname][1], 8 * fw[sname][0]), nontrivial=True)
    # (fewer than two such assignments is left to the floor of H4: H2 reports a total that is taken from somewhere else)


def _stat_target(n):
    tgt = None
    if n.get('k') == 'Bin':
        tgt = n['lhs']
    elif n.get('k') == 'Call' and n.get('args'):
        tgt = n['args'][0]
    p = member_path(tgt) if tgt is not None else None
    if p and len(p) >= 2 and p[-2] == 'fileStatistics':
        return p[-1]
    return None


# ---------------------------------------------------------------------- F3-F6
def F3F4(F, rep, FL):
    fn = F.fn(U2C)
    rep.saw_function(U2C)
    # F3: compress(0, .) exactly on compressionLevel == 0, compress(2, compressionLevel) otherwise
    rep.count('F3')
    bad = None
    n = 0
    for evs, out in FL.paths(fn, follow=()):
        cs = [e for e in evs if e['ev'] == 'call' and e['n'].get('fn') == 'compress' and e['n'].get('calleeInRoot')]
        if not cs:
            continue
        n += 1
        br = [e for e in evs if e['ev'] == 'branch' and any(x.get('name') == 'compressionLevel' for x in walk(deep_resolve(e['n'], fn)))]
        if len(cs) != 1 or not br:
            bad = 'no branch on compressionLevel / several compress calls'
            break
        c = deep_resolve(br[0]['n'], fn)
        cc = strip(c)
        is_eq0 = isinstance(cc, dict) and cc.get('k') == 'Bin' and cc.get('op') in ('==', '!=') and any(strip_all_casts(x).get('v') == 0 for x in (cc['lhs'], cc['rhs']))
        if not is_eq0:
            bad = 'branch condition is not compressionLevel == 0'
            break
        zero_side = br[0]['taken'] == (cc['op'] == '==')
        a = cs[0]['n']['args']
        m = strip_all_casts(a[0]).get('v')
        lvl = strip_all_casts(deep_resolve(a[1], fn))
        if zero_side and m != 0:
            bad = 'level 0 is stored with method %s' % m
            break
        if not zero_side and not (m == 2 and (member_path(lvl) or (None,))[-1] == 'compressionLevel'):
            bad = 'levels 1-9 are stored with method %s and level argument %s' % (m, expr_str(lvl))
            break
    rep.ob('F3', 'method-level|file', bad is None and n > 0, rep.fn_site(fn),
           'uncompressedFile2CompressedFile: compress(0, .) exactly when compressionLevel == 0, compress(2, compressionLevel) otherwise' if bad is None else
           'uncompressedFile2CompressedFile: ' + str(bad), nontrivial=True)
    co = F.fn('Vector::BLF::LogContainer::compress')
    rep.count('F3')
    ok1 = ok2 = ok3 = False
    pm = {p['name']: p['id'] for p in co['params']}
    for n_ in flat_nodes(F, co):
        if n_.get('k') == 'Call' and n_.get('fn') == 'compress2':
            ok1 = local_id(n_['args'][4]) == pm.get('compressionLevel')
        if n_.get('k') == 'Bin' and n_.get('op') == '=' and (member_path(n_['lhs']) or (None,))[-1] == 'compressionMethod':
            ok2 = local_id(n_['rhs']) == pm.get('compressionMethod')
        if n_.get('k') == 'Switch':
            ok3 = ok3 or local_id(n_['cond']) == pm.get('compressionMethod') or (member_path(n_['cond']) or (None,))[-1] == 'compressionMethod'
        if n_.get('k') == 'If':
            cc = strip(n_['cond'])
            if isinstance(cc, dict) and cc.get('k') == 'Bin' and cc.get('op') in ('==', '!='):
                for side in (cc['lhs'], cc['rhs']):
                    sd = strip_all_casts(side)
                    if isinstance(sd, dict) and (sd.get('id') == pm.get('compressionMethod') or sd.get('name') == 'compressionMethod'):
                        ok3 = True
    rep.ob('F3', 'method-level|container', ok1 and ok2 and ok3, rep.fn_site(co),
           'LogContainer::compress: the stored method is the parameter (%s), the code dispatches on it (%s), ::compress2 gets the level parameter (%s)' % (ok2, ok3, ok1),
           nontrivial=True)
    # F4: cut size flow
    rep.count('F4')
    bad = None
    n = 0
    for evs, out in FL.paths(fn, follow=()):
        rd = [i for i, e in enumerate(evs) if e['ev'] == 'call' and e['n'].get('fn') == 'read' and recv_root(e['n']) == 'm_uncompressedFile']
        if not rd:
            continue
        n += 1
        r = evs[rd[0]]['n']
        req = strip_all_casts(resolve_alias(r['args'][1], fn))
        req_ok = req.get('k') == 'Call' and req.get('fn') == 'defaultLogContainerSize'
        dst = strip_all_casts(r['args'][0])
        dst_ok = dst.get('k') == 'Call' and dst.get('fn') == 'data' and (member_path(dst.get('obj')) or (None,))[-1] == 'uncompressedFile'
        pre = [e for e in evs[:rd[0]] if e['ev'] == 'call' and e['n'].get('fn') == 'resize' and (member_path(e['n'].get('obj')) or (None,))[-1] == 'uncompressedFile']
        pre_ok = bool(pre) and strip_all_casts(resolve_alias(pre[-1]['n']['args'][0], fn)).get('fn') == 'defaultLogContainerSize'
        post = evs[rd[0]:]
        asg = [e for e in post if e['ev'] == 'assign' and _assign_target(e['n']) == 'uncompressedFileSize']
        asg_ok = bool(asg) and any(x.get('fn') == 'gcount' for x in walk(asg[0]['n']))
        rs = [e for e in post if e['ev'] == 'call' and e['n'].get('fn') == 'resize' and (member_path(e['n'].get('obj')) or (None,))[-1] == 'uncompressedFile']
        rs_ok = bool(rs) and (member_path(strip_all_casts(rs[0]['n']['args'][0])) or (None,))[-1] == 'uncompressedFileSize'
        if not (req_ok and dst_ok and pre_ok and asg_ok and rs_ok):
            bad = 'request=defaultLogContainerSize():%s into uncompressedFile.data():%s sized before:%s; uncompressedFileSize := gcount():%s; buffer resized to it:%s' % (req_ok, dst_ok, pre_ok, asg_ok, rs_ok)
            break
    rep.ob('F4', 'cut-size', bad is None and n > 0, rep.fn_site(fn),
           'uncompressedFile2CompressedFile: reads defaultLogContainerSize() bytes into a buffer of that size; uncompressedFileSize := gcount(); buffer resized to it' if bad is None else
           'uncompressedFile2CompressedFile: ' + str(bad), nontrivial=True)


def F7(F, rep):
    """the compressed file is opened exactly as the caller asked: File::open and CompressedFile::open pass their mode parameter on, once,
    with nothing added but ios::binary.  An added flag (ios::in to "update in place", app, ate) keeps what an earlier file at that path
    held: the bytes written then depend on that earlier content"""
    def terms(e):
        e = strip_all_casts(e)
        while isinstance(e, dict) and e.get('k') == 'Paren':
            e = strip_all_casts(e.get('sub'))
        if isinstance(e, dict) and e.get('k') == 'Bin' and e.get('op') == '|':
            return terms(e['lhs']) + terms(e['rhs'])
        if isinstance(e, dict) and e.get('k') == 'Call' and e.get('fn') in ('operator|',) and len(e.get('args', [])) == 2:
            return terms(e['args'][0]) + terms(e['args'][1])
        return [e]

    for qn, recv in (('Vector::BLF::CompressedFile::open', 'm_file'), (FILE + '::open', 'm_compressedFile')):
        fns = F.functions.get(qn, [])
        if not fns:
            raise AnalysisBroken('%s vanished' % qn)
        for fn in fns:
            if len(fn['params']) < 2:
                continue
            rep.count('F7')
            pid = fn['params'][1]['id']     # (filename, mode)
            opens = [n for n in walk(fn['body']) if n.get('k') == 'Call' and n.get('fn') == 'open' and (member_path(n.get('obj')) or (None,))[-1] == recv]
            if not opens:
                # an overload that only delegates (open(const std::string &, mode) -> open(filename.c_str(), mode)) hands the mode on as it is
                opens = [n for n in walk(fn['body']) if n.get('k') == 'Call' and n.get('fn') == 'open' and (n.get('cls') or '').startswith(qn.rsplit('::', 1)[0])
                         and member_path(n.get('obj')) in (None, (), ('this',))]
            ok = len(opens) == 1 and len(opens[0].get('args', [])) >= 2 and not Flow_modified(fn, pid)
            if ok:
                ts = terms(deep_resolve(opens[0]['args'][1], fn))
                ts = [t for t in ts for t in terms(deep_resolve(t, fn))]
                own = [t for t in ts if local_id(t) == pid]
                rest = [t for t in ts if local_id(t) != pid and not expr_str(t).endswith('binary')]
                ok = len(own) >= 1 and not rest
            short = qn.split('::', 2)[-1]
            rep.ob('F7', '%s|mode' % short, bool(ok), rep.fn_site(fn),
                   '%s opens the file once, with the mode it was given (and ios::binary)' % short if ok else
                   '%s opens the file %d time(s) / with a mode other than its parameter and ios::binary (%s): what an earlier file at that path held '
                   'can survive into the new one' % (short, len(opens), ', '.join(expr_str(o['args'][1]) for o in opens if len(o.get('args', [])) > 1)),
                   nontrivial=True)


def F8(F, rep, FL):
    """the bytes reach the file in the order of the write() calls: CompressedFile::write hands (s, n) to the stream on every path; if the
    class collects bytes in a member first, no path may write straight to the stream while collected bytes are pending (a flush - a stream
    write out of a member - has to come first on that path).  LogContainer::write emits the 32 byte container header field by field and the
    payload in one piece: a short cut for large pieces puts the payload in front of its own header"""
    fn = None
    for f in F.functions.get('Vector::BLF::CompressedFile::write', []):
        if len(f.get('params', [])) == 2:
            fn = f
    if fn is None:
        raise AnalysisBroken('CompressedFile::write(const char *, std::streamsize) vanished')
    rep.count('F8')
    sid = fn['params'][0]['id']
    helpers_flush = set()
    for h in methods_of(F, 'Vector::BLF::CompressedFile'):
        if h.get('access') == 2 and any(x.get('k') == 'Call' and x.get('fn') == 'write' and (member_path(x.get('obj')) or (None,))[-1] == 'm_file'
                                        for x in walk(h['body'])):
            helpers_flush.add(h['name'])
    bad = None
    n = 0
    keeps = False
    plist = [(evs, out) for evs, out in FL.paths(fn, follow=()) if out in ('normal', 'return')]
    for evs, out in plist:
        for e in evs:
            if e['ev'] == 'call' and e['n'].get('ck') == 'member' and e['n'].get('fn') in ('insert', 'push_back', 'append', 'assign', 'emplace_back', 'resize'):
                mp = member_path(e['n'].get('obj'))
                if mp and mp[-1] not in ('m_file', 'm_mutex'):
                    keeps = True
    for evs, out in plist:
        n += 1
        direct = [i for i, e in enumerate(evs) if e['ev'] == 'call' and e['n'].get('fn') == 'write' and (member_path(e['n'].get('obj')) or (None,))[-1] == 'm_file' and
                  e['n'].get('args') and local_id(deep_resolve(e['n']['args'][0], fn)) == sid]
        flush = [i for i, e in enumerate(evs) if e['ev'] == 'call' and ((e['n'].get('callee') in helpers_flush) or
                 (e['n'].get('fn') == 'write' and (member_path(e['n'].get('obj')) or (None,))[-1] == 'm_file' and e['n'].get('args') and
                  local_id(deep_resolve(e['n']['args'][0], fn)) != sid))]
        if not keeps and len(direct) != 1:
            bad = 'hands its bytes to the stream %d times on a path (%s)' % (len(direct), fmt_events(evs, limit=8))
            break
        if keeps and direct and not [j for j in flush if j < direct[0]]:
            bad = ('writes a piece straight to the stream (line %s) while earlier pieces may still wait in a member buffer - the bytes reach the file out of order '
                   '(a container payload in front of its own header)' % evs[direct[0]].get('l'))
            break
    rep.ob('F8', 'CompressedFile::write|in-order', bad is None and n > 0, rep.fn_site(fn),
           'CompressedFile::write passes every piece to the stream in call order (%d paths%s)' % (n, ', buffered' if keeps else '') if bad is None and n > 0 else
           'CompressedFile::write %s' % (bad or 'has no normal path'), nontrivial=True)


def F4s(F, rep):
    """the container size the application configures is the size the stream cuts by: File::setDefaultLogContainerSize hands its parameter
    on unchanged, UncompressedFile::setDefaultLogContainerSize stores its parameter unchanged, the getters return the member - a setter
    that rounds, clamps or scales makes containers larger (or differently cut) than configured"""
    sites = []
    fset = [f for f in F.functions.get(FILE + '::setDefaultLogContainerSize', [])]
    uset = [f for f in F.functions.get('Vector::BLF::UncompressedFile::setDefaultLogContainerSize', [])]
    for fn in fset:
        pid = fn['params'][0]['id'] if fn['params'] else None
        calls = [n for n in walk(fn['body']) if n.get('k') == 'Call' and n.get('fn') == 'setDefaultLogContainerSize' and recv_root(n) == 'm_uncompressedFile']
        ok = bool(calls) and all(local_id(deep_resolve(c['args'][0], fn)) == pid for c in calls) and not Flow_modified(fn, pid)
        sites.append((fn, ok, 'File::setDefaultLogContainerSize passes %s to the stream' %
                      ('its parameter unchanged' if ok else ('a parameter it has changed before' if Flow_modified(fn, pid) else
                       '[%s], not its parameter as given' % ', '.join(expr_str(deep_resolve(c['args'][0], fn)) for c in calls)))))
    for fn in uset:
        pid = fn['params'][0]['id'] if fn['params'] else None
        asg = [n for n in walk(fn['body']) if n.get('k') == 'Bin' and n.get('op') == '=' and mname(n['lhs']) == 'm_defaultLogContainerSize']
        ok = bool(asg) and all(local_id(deep_resolve(a['rhs'], fn)) == pid for a in asg) and not Flow_modified(fn, pid)
        sites.append((fn, ok, 'UncompressedFile::setDefaultLogContainerSize stores %s' %
                      ('its parameter unchanged' if ok else '[%s], not its parameter as given' % ', '.join(expr_str(deep_resolve(a['rhs'], fn)) for a in asg))))
    for fn, ok, what in sites:
        rep.count('F4')
        rep.ob('F4', 'configured-size|%s' % short(fn['name']), ok, rep.fn_site(fn), what, nontrivial=True)
    if len(sites) < 2:
        raise AnalysisBroken('F4: the two setDefaultLogContainerSize functions were not found')


def Flow_modified(fn, vid):
    for n in walk(fn['body']):
        if n.get('k') == 'Bin' and n.get('op') in ('=', '+=', '-=', '*=', '/=', '|=', '&=', '^=', '<<=', '>>=') and (strip_all_casts(n['lhs']) or {}).get('id') == vid:
            return True
        if n.get('k') == 'Un' and n.get('op') in ('++', '--') and (strip_all_casts(n['sub']) or {}).get('id') == vid:
            return True
    return False


def _method_of_path(evs):
    """value of the compression method a path was dispatched on: a switch case, or an `== K` comparison taken / `!= K` not taken"""
    case = None
    for e in evs:
        if e['ev'] != 'branch':
            continue
        if e.get('case') is not None:
            case = strip_all_casts(e['case']).get('v')
            continue
        c = strip(e['n'])
        while isinstance(c, dict) and c.get('k') == 'Cast':
            c = strip(c['sub'])
        if isinstance(c, dict) and c.get('k') == 'Bin' and c.get('op') in ('==', '!='):
            l, r = strip_all_casts(c['lhs']), strip_all_casts(c['rhs'])
            for a_, b_ in ((l, r), (r, l)):
                nm = a_.get('name') if isinstance(a_, dict) else None
                if nm == 'compressionMethod' and isinstance(b_, dict) and 'v' in b_:
                    if e['taken'] == (c['op'] == '=='):
                        case = b_['v']
    return case


def F3p(F, rep, FL):
    """payload provenance in LogContainer::compress / uncompress: on every normal exit the stored payload is what the stored method
    says it is (method 0: a copy of the other buffer; method 2: the output of the zlib call), and its size field is the size
    of that output"""
    lc = 'Vector::BLF::LogContainer'
    for (fname, dst, src, zfn) in (('compress', 'compressedFile', 'uncompressedFile', 'compress2'),
                                    ('uncompress', 'uncompressedFile', 'compressedFile', 'uncompress')):
        fn = F.fn(lc + '::' + fname)
        rep.count('F3p')
        bad = None
        n = 0
        for evs, out in FL.paths(fn, follow=()):
            if out not in ('normal', 'return'):
                continue
            case = _method_of_path(evs)
            if case is None:
                continue
            n += 1
            prov = None
            for e in evs:
                nn = e.get('n')
                if e['ev'] == 'assign' and nn.get('k') == 'Call' and nn.get('op') == '=' and (member_path(nn['args'][0]) or (None,))[-1] == dst:
                    prov = 'copy:' + str((member_path(nn['args'][1]) or ('?',))[-1])
                elif e['ev'] == 'call' and nn.get('fn') == zfn and not nn.get('calleeInRoot'):
                    a0 = strip_all_casts(nn['args'][0])
                    if a0.get('k') == 'Call' and (member_path(a0.get('obj')) or (None,))[-1] == dst:
                        prov = 'zlib'
            want = {0: 'copy:' + src, 2: 'zlib'}.get(case)
            if prov != want:
                bad = 'method %s path ends with %s holding %s, expected %s: %s' % (case, dst, prov, want, fmt_events(evs, limit=18))
                break
        rep.ob('F3p', '%s|payload-provenance' % fname, bad is None and n > 0, rep.fn_site(fn),
               'LogContainer::%s: on each of the %d method paths %s is exactly what the stored method denotes' % (fname, n, dst) if bad is None and n > 0 else
               'LogContainer::%s: %s' % (fname, bad or 'no method path found'), nontrivial=True)


def M1(F, rep, R):
    """the session kind is decided by the in / out bits alone: every test of the open mode in File has the same outcome for `in` and for
    `in | binary` (and for `out` / `out | trunc`).  A test by equality (m_openMode == std::ios_base::in) is right for the two spellings the
    documentation shows only: with any companion flag neither branch runs - open() starts no workers, close() joins none"""
    from roles import IOS_IN, IOS_OUT
    n = 0
    bad = []
    for fn in methods_of(F, FILE):
        for x in walk(fn['body']):
            if x.get('k') != 'If':
                continue
            c = x.get('cond')
            vals = {}
            for name, base in (('in', {IOS_IN: True, IOS_OUT: False}), ('out', {IOS_IN: False, IOS_OUT: True})):
                vals[name] = (R._eval_mode(c, dict(base, **{R._X: False})), R._eval_mode(c, dict(base, **{R._X: True})))
            if all(v == (None, None) for v in vals.values()):
                continue
            n += 1
            for name, (plain, extra) in vals.items():
                if plain != extra:
                    bad.append((fn, x, name))
    rep.count('M1')
    rep.ob('M1', 'mode-tests|bits-only', not bad and n > 0, rep.fn_site(bad[0][0], bad[0][1].get('l')) if bad else rep.fn_site(R.open_fn),
           'all %d tests of the open mode in File depend on the in / out bits only' % n if not bad and n > 0 else
           ('%s tests the open mode with [%s] (line %s): a session opened with std::ios_base::%s plus a companion flag (binary, trunc) takes another '
            'branch than one opened with %s alone - workers not started / not joined' % (short(bad[0][0]['name']), expr_str(bad[0][1]['cond'])[:100], bad[0][1].get('l'),
                                                                                        bad[0][2], bad[0][2])) if bad else 'no test of the open mode found in File',
           nontrivial=True)


def O6(F, rep, R):
    """the file is opened and closed by the application thread only (open() / close()): File::close() decides by is_open() whether there
    is a session to shut down - a worker that closes the compressed file on its way out makes close() and the destructor return without
    stopping and joining the workers, and the std::thread members are destroyed while joinable (std::terminate)"""
    rep.count('O6')
    bad = []
    n = 0
    for q in sorted(R.threads):
        seen = set()
        todo = [q]
        while todo:
            name = todo.pop()
            if name in seen:
                continue
            seen.add(name)
            for fn in F.functions.get(name, []):
                for x in walk(fn['body']):
                    if x.get('k') != 'Call':
                        continue
                    if (x.get('callee') or '').startswith(FILE + '::') and x.get('calleeInRoot'):
                        todo.append(x['callee'])
                    if x.get('fn') in ('close', 'open') and field_root(member_path(x.get('obj')) or ()) == 'm_compressedFile':
                        bad.append((fn, x, q))
        n += len(seen)
    rep.ob('O6', 'compressed-file|opened-and-closed-by-the-application', not bad and n >= len(R.threads) > 0, rep.fn_site(bad[0][0], bad[0][1].get('l')) if bad else None,
           'no worker (%d functions reachable from the %d thread entries) opens or closes the compressed file' % (n, len(R.threads)) if not bad else
           '%s, run by the worker %s, calls m_compressedFile.%s() (line %s): is_open() turns false behind the application\'s back - close() and ~File() then '
           'return without joining the workers' % (short(bad[0][0]['name']), short(bad[0][2]), bad[0][1].get('fn'), bad[0][1].get('l')), nontrivial=True)


def K9c(F, rep, R, FL):
    """what the application configures between open() and its first write() is what the workers use: a worker reads the public
    configuration members of File (compressionLevel, writeRestorePoints) only after it has taken data from the stage in front of it in the
    same function - that hand-over (the stage's mutex) is what orders the application's assignment before the worker's read.  A value
    fetched at thread start, or cached before the blocking read, races with that assignment and may apply the old setting to the first
    container"""
    CONFIG = {'compressionLevel', 'writeRestorePoints'}
    rep.count('K9c')
    bad = None
    n = 0
    for q, t in sorted(R.threads.items()):
        if t['mode'] != 'write':
            continue
        seen, todo = set(), [q]
        while todo:
            name = todo.pop()
            if name in seen:
                continue
            seen.add(name)
            for fn in F.functions.get(name, []):
                for x in walk(fn['body']):
                    if x.get('k') == 'Call' and (x.get('callee') or '').startswith(FILE + '::') and x.get('calleeInRoot'):
                        todo.append(x['callee'])
                uses = [x for x in walk(fn['body']) if x.get('k') == 'Member' and x.get('dk') == 'field' and x.get('owner') == FILE and x.get('name') in CONFIG]
                if not uses:
                    continue
                for evs, out in FL.paths(fn, follow=()):
                    rd = [i for i, e in enumerate(evs) if e['ev'] == 'call' and e['n'].get('fn') == 'read' and field_root(member_path(e['n'].get('obj')) or ()) in R.stages]
                    for i, e in enumerate(evs):
                        node = e['var'].get('init') if e['ev'] == 'decl' else e.get('n')
                        if node is None:
                            continue
                        if any(x.get('k') == 'Member' and x.get('dk') == 'field' and x.get('owner') == FILE and x.get('name') in CONFIG for x in walk(node)):
                            n += 1
                            if not rd or i < rd[0]:
                                nm = [x['name'] for x in walk(node) if x.get('k') == 'Member' and x.get('name') in CONFIG][0]
                                bad = bad or (fn, e.get('l'), nm, q)
    rep.ob('K9c', 'workers|configuration-read-after-hand-over', bad is None, rep.fn_site(bad[0], bad[1]) if bad else None,
           'the write-mode workers read compressionLevel / writeRestorePoints only behind a blocking read of the stage in front of them (%d reads on paths)' % n
           if bad is None else
           '%s (worker %s) reads %s at line %s before it has taken anything from the stage in front of it: nothing orders that read after an assignment the '
           'application makes between open() and its first write() - the first container may be written with the old setting'
           % (short(bad[0]['name']), short(bad[3]), bad[2], bad[1]), nontrivial=True)


def O7(F, rep, FL):
    """the hand-over of a container to the in-memory stream is final: what compressedFile2UncompressedFile() passes to
    m_uncompressedFile.write(container) was created in that same call (a local owner initialised from new / make_shared), so the worker
    holds no way to reach it afterwards.  A container taken from a member (a ring of reused containers, a cache) is written again by the
    inflating worker while the decoding worker still reads it - with no lock in common"""
    fn = F.fn(C2U)
    rep.count('O7')
    calls = [n for n in walk(fn['body']) if n.get('k') == 'Call' and n.get('fn') == 'write' and recv_root(n) == 'm_uncompressedFile' and n.get('args')]
    bad = None
    for c in calls:
        a = strip_all_casts(c['args'][0])
        while isinstance(a, dict) and a.get('k') == 'Construct' and len(a.get('args', [])) == 1:
            a = strip_all_casts(a['args'][0])
        ok = False
        if isinstance(a, dict) and a.get('k') == 'Ref' and a.get('dk') == 'local':
            inits = [v for d in walk(fn['body']) if d.get('k') == 'Decl' for v in d['vars'] if v['id'] == a['id']]
            if len(inits) == 1 and '&' not in (inits[0].get('t') or '') and inits[0].get('init') is not None:
                fresh = any((x.get('k') == 'New') or (x.get('k') == 'Call' and x.get('fn') in ('make_shared', 'make_unique')) for x in walk(inits[0]['init']))
                members = any(x.get('k') == 'Member' and x.get('dk') == 'field' and x.get('owner') == FILE for x in walk(inits[0]['init']))
                reass = [b for b in walk(fn['body']) if b.get('k') in ('Bin', 'Call') and b.get('op') == '=' and
                         local_id((b.get('lhs') if b.get('k') == 'Bin' else (b.get('args') or [None])[0])) == a['id']]
                ok = fresh and not members and not reass
        if not ok:
            bad = (c, expr_str(c['args'][0]))
    rep.ob('O7', 'C2U|fresh-container', bad is None and bool(calls), rep.fn_site(fn, bad[0].get('l') if bad else None),
           'compressedFile2UncompressedFile hands over a container it created in the same call (%d hand-over site(s))' % len(calls) if bad is None and calls else
           ('compressedFile2UncompressedFile hands over %s, which is not a local owner of an object created in this call: the worker can reach - and refill - a '
            'container the decoding thread is still reading' % bad[1]) if bad else 'no hand-over to the in-memory stream found', nontrivial=True)


def F5F6(F, rep, R):
    """who may write the compressed file / the uncompressed stream (write mode)"""
    rep.count('F5')
    allowed = {('Vector::BLF::FileStatistics::write', 'APP', 'pre-start'), ('Vector::BLF::FileStatistics::write', 'APP', 'post-join'),
               ('Vector::BLF::LogContainer::write', 'T:compressedFileWriteThread', 'concurrent'),
               ('Vector::BLF::LogContainer::write', 'APP', 'post-join')}
    writers = {}
    for c in R.calls:
        if c['stage'] == 'm_compressedFile' and c['method'] in ('write', 'skipp', 'seekp'):
            top = None
            for x in c['chain']:
                if x.endswith('::write') and not x.startswith(FILE):
                    top = x
                    break
            top = top or c['caller']
            writers.setdefault((top, c['role'], c['phase']), c)
    # close() itself (or a private part of it: finalizeCompressedFile()) repositions and rewrites the header once both workers are joined
    extra = [k for k in writers if k not in allowed and not (k[0].startswith(FILE + '::') and k[1] == 'APP' and k[2] == 'post-join' and
                                                               (k[0] == FILE + '::close' or (writers[k]['chain'] and writers[k]['chain'][0] == FILE + '::close')))]
    rep.ob('F5', 'compressed-file|writers', not extra, None,
           'writers of the compressed file: %s' % ', '.join('%s by %s (%s)' % (short(a), b, c) for a, b, c in sorted(writers)) +
           ('' if not extra else ' - NOT ALLOWED: ' + ', '.join('%s by %s (%s) at %s:%s' % (short(a), b, c, short(writers[(a, b, c)]['caller']), writers[(a, b, c)]['line']) for a, b, c in extra)),
           nontrivial=True)
    rep.count('F6')
    uw = {}
    for c in R.calls:
        if c['stage'] == 'm_uncompressedFile' and c['method'] in ('write', 'skipp', 'nextLogContainer') and c['mode'] in ('write', 'any'):
            root = c['chain'][1] if len(c['chain']) > 1 else c['caller']
            uw.setdefault((root if c['role'] != 'APP' else c['chain'][min(1, len(c['chain']) - 1)], c['role'], c['phase']), c)
    bad = [k for k in uw if not ((k[1] == 'T:uncompressedFileWriteThread' and k[2] == 'concurrent') or (k[1] == 'APP' and k[2] == 'post-join'))]
    rep.ob('F6', 'uncompressed-stream|writers', not bad, None,
           'writers of the uncompressed stream in write mode: %s' % ', '.join('%s by %s (%s)' % (short(a), b, c) for a, b, c in sorted(uw)) +
           ('' if not bad else ' - NOT ALLOWED: ' + ', '.join('%s by %s (%s)' % (short(a), b, c) for a, b, c in bad)), nontrivial=True)


# ---------------------------------------------------------------------- S1 resync table, S2/S3 offsets, T1 progress
def S1e(F, rep, FL):
    """the signature search terminates at the end of input: every iteration that does not find the signature passes the end-of-file
    test (which throws) before it retries - a retry at end of file re-reads nothing and would match the same stale bytes forever"""
    fn = F.fn(OHB + '::read')
    rep.count('S1')
    bad = None
    eof_only = False
    niter = 0
    for evs, out in FL.paths(fn, follow=('BLF',)):
        idx = [i for i, e in enumerate(evs) if e['ev'] == 'branch' and e.get('loop')]
        for a, b in zip(idx, idx[1:]):
            if not evs[a]['taken']:
                continue
            niter += 1
            seg = evs[a:b]
            matched = any(e['ev'] == 'assign' and (member_path((e['n'].get('lhs') if e['n'].get('k') == 'Bin' else None)) or (None,))[-1] == 'signature' for e in seg)
            if matched:
                continue
            # the test has to be on the stream's state as a whole (good()): a std::fstream that was closed meanwhile, or whose seek failed,
            # carries failbit without eofbit - an eof()-only test lets the search spin on it (the close() race fixed in 4842e88)
            if not any(e['ev'] == 'call' and e['n'].get('fn') == 'good' for e in seg):
                bad = seg
                eof_only = any(e['ev'] == 'call' and e['n'].get('fn') == 'eof' for e in seg)
                break
        if bad:
            break
    rep.ob('S1', 'loop|eof-every-retry', bad is None and niter > 0, rep.fn_site(fn),
           'ObjectHeaderBase::read: every non-matching iteration tests the stream state (good()) before retrying (%d iterations over all paths)' % niter if bad is None else
           ('ObjectHeaderBase::read retries the signature search after testing eof() only: %s - a stream that failed without reaching its end (closed by close() '
            'meanwhile, failed seek) keeps the worker spinning' % fmt_events(bad, limit=12)) if eof_only else
           'ObjectHeaderBase::read can retry the signature search without testing for end of file: %s - at the end of the input the worker spins forever'
           % fmt_events(bad, limit=12), nontrivial=True)


def S1(F, rep):
    fn = F.fn(OHB + '::read')
    rep.saw_function(fn['name'])
    sig = None
    for e in F.enums.values():
        pass
    loops = [n for n in walk(fn['body']) if n.get('k') in ('While', 'For', 'Do')]
    if len(loops) != 1:
        raise AnalysisBroken('ObjectHeaderBase::read: expected exactly one loop, found %d' % len(loops))
    lp = loops[0]
    rep.count('S1')
    SIG = None
    allowed_breaks = []
    c = strip(lp['cond']) if lp.get('cond') is not None else None
    if isinstance(c, dict) and c.get('k') == 'Bin' and c.get('op') == '!=':
        # while (tmp != ObjectSignature)
        consts = [x.get('v') for x in (strip_all_casts(c.get('lhs')), strip_all_casts(c.get('rhs'))) if isinstance(x, dict) and 'v' in x]
        if consts:
            SIG = consts[0] & 0xffffffff
    elif c is None or (isinstance(c, dict) and c.get('v') == 1):
        # for (;;) / while (true): the only way out is a break in the branch taken when the word read equals the signature
        for n in walk(lp['body']):
            if n.get('k') == 'If':
                cc = strip(n['cond'])
                if isinstance(cc, dict) and cc.get('k') == 'Bin' and cc.get('op') in ('==', '!='):
                    consts = [x.get('v') for x in (strip_all_casts(cc.get('lhs')), strip_all_casts(cc.get('rhs'))) if isinstance(x, dict) and 'v' in x]
                    matched_branch = n.get('then') if cc['op'] == '==' else n.get('else')
                    brs = [b_ for b_ in walk(matched_branch or {}) if b_.get('k') == 'Break']
                    asg = [b_ for b_ in walk(matched_branch or {}) if b_.get('k') == 'Bin' and b_.get('op') == '=' and member_path(b_['lhs']) == ('signature',)]
                    if consts and brs and asg and consts[0] > 0xffff:
                        SIG = consts[0] & 0xffffffff
                        allowed_breaks = brs
    if SIG is None:
        rep.ob('S1', 'loop|exit', False, rep.fn_site(fn, lp['l']), 'the signature search loop is not left exactly when the 4 bytes read equal ObjectSignature')
        return
    rep.ob('S1', 'loop|exit', True, rep.fn_site(fn, lp['l']), 'signature search exits only when the 4 bytes read equal ObjectSignature (0x%08x) or by exception' % SIG,
           nontrivial=True)
    # no other break / return inside the loop
    rep.count('S1')
    esc = [n for n in walk(lp['body']) if n.get('k') in ('Break', 'Return') and not any(n is b_ for b_ in allowed_breaks)]
    rep.ob('S1', 'loop|no-early-exit', not esc, rep.fn_site(fn, esc[0]['l'] if esc else lp['l']),
           'no break/return leaves the search loop without a match' if not esc else 'the search loop can be left without a match (line %s)' % esc[0]['l'])
    # partial-match branches
    found = {}
    for n in walk(lp['body']):
        if n.get('k') != 'If':
            continue
        cc = strip(n['cond'])
        if not (isinstance(cc, dict) and cc.get('k') == 'Bin' and cc.get('op') == '=='):
            continue
        l, r = strip_all_casts(cc['lhs']), strip_all_casts(cc['rhs'])
        andn = l if l.get('k') == 'Bin' and l.get('op') == '&' else (r if r.get('k') == 'Bin' and r.get('op') == '&' else None)
        val = r if andn is l else l
        if andn is None or 'v' not in val:
            continue
        m = [strip_all_casts(x).get('v') for x in (andn['lhs'], andn['rhs']) if 'v' in strip_all_casts(x)]
        if not m:
            continue
        seeks = [x for x in walk(n['then']) if x.get('k') == 'Call' and x.get('fn') == 'seekg']
        if len(seeks) != 1:
            continue
        off = strip_all_casts(seeks[0]['args'][0]).get('v')
        found[off] = (m[0] & 0xffffffff, val['v'] & 0xffffffff, n['l'])
    for s_ in (3, 2, 1):
        rep.count('S1')
        want_mask = (0xffffffff << (8 * (4 - s_))) & 0xffffffff
        want_val = (SIG << (8 * (4 - s_))) & want_mask
        got = found.get(-s_)
        ok = got is not None and got[0] == want_mask and got[1] == want_val
        rep.ob('S1', 'partial|%d' % s_, ok, rep.fn_site(fn, got[2] if got else lp['l']),
               'a %d-byte signature prefix at the end of the 4 bytes read: mask 0x%08x value 0x%08x seek -%d%s' %
               (s_, want_mask, want_val, s_, '' if ok else ' - the code has %s' % (('mask 0x%08x value 0x%08x' % got[:2]) if got else 'no such branch')),
               nontrivial=True)
    rep.count('S1')
    extra = [k for k in found if k not in (-1, -2, -3)]
    rep.ob('S1', 'partial|others', not extra, rep.fn_site(fn, lp['l']), 'no other seek-back distances than -1, -2, -3' if not extra else
           'unexpected seek-back distance(s) %s' % extra)


class Off:
    """symbolic stream offset relative to the start of the function: const + sum of named terms"""
    def __init__(self, c=0, t=None):
        self.c = c
        self.t = dict(t or {})

    def add(self, c=0, term=None, k=1):
        t = dict(self.t)
        if term:
            t[term] = t.get(term, 0) + k
            if t[term] == 0:
                del t[term]
        return Off(self.c + c, t)

    def __repr__(self):
        return ' + '.join(['%d' % self.c] + ['%s%s' % ('' if k == 1 else '%d*' % k, n) for n, k in sorted(self.t.items())])


def offsets_u2q(F, FL):
    """offset algebra over uncompressedFile2ReadWriteQueue: per path, the stream offset (relative to the position where
    the probing header read found the signature, i.e. the object start) at interesting points"""
    fn = F.fn(U2Q)
    HS = None
    res = []
    for evs, out in FL.paths(fn, follow=()):
        off = Off()
        info = {'evs': evs, 'out': out, 'decode_at': None, 'end': None, 'unknown': False, 'guards': []}
        hdr_var = None
        first_read = True
        marks = {}      # local id -> offset at which it was set to m_uncompressedFile.tellg()
        decls = {}      # local id -> var
        info['repos'] = None
        for e in evs:
            if e['ev'] == 'branch':
                info['guards'].append(e)
                gb_ = _excess_guard_bad(e, decls, marks, hdr_var)
                if gb_ and not info.get('guard_bad'):
                    info['guard_bad'] = gb_
            if e['ev'] == 'decl':
                v = e['var']
                decls[v['id']] = v
                i0 = strip_all_casts(v.get('init')) if v.get('init') is not None else None
                while isinstance(i0, dict) and i0.get('k') == 'Construct' and len(i0.get('args', [])) == 1:
                    i0 = strip_all_casts(i0['args'][0])
                if isinstance(i0, dict) and i0.get('k') == 'Call' and i0.get('fn') == 'tellg' and recv_root(i0) == 'm_uncompressedFile':
                    marks[v['id']] = off
            if e['ev'] != 'call':
                continue
            n = e['n']
            if n.get('fn') == 'read' and any(field_root(member_path(a)) == 'm_uncompressedFile' for a in n.get('args', [])):
                if first_read:
                    # probing header: consumes headerSize bytes from the object start (resync skips filler before it)
                    # the search for the signature first steps over FILLER bytes (possibly none) in front of the object
                    off = off.add(term='FILLER').add(term='HDR')
                    hdr_var = local_id(n.get('obj'))
                    first_read = False
                else:
                    info['decode_at'] = off
                    off = off.add(term='CONSUMED')
            elif n.get('fn') == 'seekg' and recv_root(n) == 'm_uncompressedFile':
                a = strip_all_casts(deep_resolve(n['args'][0], fn))
                if a.get('k') == 'Un' and a.get('op') == '-' and strip_all_casts(a['sub']).get('fn') == 'calculateHeaderSize' and \
                        local_id(strip_all_casts(a['sub']).get('obj')) == hdr_var:
                    off = off.add(term='HDR', k=-1)
                elif a.get('k') == 'Member' and a.get('name') == 'objectSize' and local_id(a.get('base')) == hdr_var:
                    off = off.add(term='objectSize')
                    info['unknown'] = True
                elif _declared_end_excess(strip_all_casts(n['args'][0]), decls, marks, hdr_var) is not None:
                    # seekg(-(tellg() - (MARK + objectSize))): continue at MARK + objectSize
                    off = _declared_end_excess(strip_all_casts(n['args'][0]), decls, marks, hdr_var).add(term='objectSize')
                    info['repos'] = 'declared-end'
                    ls_ = _lin_seek(n['args'][0], decls, marks, hdr_var)
                    if ls_ and ls_[1]:
                        info['narrow'] = sorted(ls_[1])
                elif (_lin_seek(n['args'][0], decls, marks, hdr_var) or ({}, set()))[0].get('T') == -1 and \
                        (_lin_seek(n['args'][0], decls, marks, hdr_var)[0].get('S') == 1) and \
                        len([x for x in _lin_seek(n['args'][0], decls, marks, hdr_var)[0] if str(x).startswith('M:')]) == 1 and \
                        len(_lin_seek(n['args'][0], decls, marks, hdr_var)[0]) == 3:
                    # any other spelling of  MARK + objectSize - tellg()  (declared - consumed, ...): continue at MARK + objectSize
                    cf_, nar_ = _lin_seek(n['args'][0], decls, marks, hdr_var)
                    mk_ = [x for x in cf_ if str(x).startswith('M:')][0]
                    if cf_[mk_] == 1:
                        off = marks[[i_ for i_ in marks if 'M:%s' % i_ == mk_][0]].add(term='objectSize')
                        info['repos'] = 'declared-end'
                        if nar_:
                            info['narrow'] = sorted(nar_)
                    else:
                        off = off.add(term='expr:' + expr_str(a))
                        info['repos'] = 'expr:' + expr_str(a)
                elif a.get('k') == 'Ref':
                    off = off.add(term='local:' + a.get('name', '?'))
                    info['repos'] = 'local:' + a.get('name', '?')
                elif 'v' in a:
                    off = off.add(c=a['v'])
                else:
                    off = off.add(term='expr:' + expr_str(a))
                    info['repos'] = 'expr:' + expr_str(a)
        info['end'] = off
        info['hdr_var'] = hdr_var
        res.append(info)
    return fn, res


def _unwrap(x):
    """casts, parentheses and the copy construction of a by-value class argument peeled off"""
    x = strip_all_casts(x)
    for _ in range(6):
        if isinstance(x, dict) and x.get('k') == 'Paren':
            x = strip_all_casts(x.get('sub'))
        elif isinstance(x, dict) and x.get('k') == 'Construct' and len(x.get('args', [])) == 1:
            x = strip_all_casts(x['args'][0])
        else:
            break
    return x


def _declared_end_excess(arg, decls, marks, hdr_var):
    """arg is  -(X)  with  X = <stream>.tellg() - (MARK + hdr.objectSize)  (X possibly a local initialised so): returns the offset of MARK"""
    if not (isinstance(arg, dict) and arg.get('k') in ('Un', 'Call')):
        return None
    if arg.get('k') == 'Un' and arg.get('op') == '-':
        x = strip_all_casts(arg['sub'])
    elif arg.get('k') == 'Call' and arg.get('ck') == 'operator' and arg.get('op') == '-' and len(arg.get('args', [])) == 1:
        x = strip_all_casts(arg['args'][0])
    else:
        return None
    for _ in range(3):
        if isinstance(x, dict) and x.get('k') == 'Ref' and x.get('id') in decls and decls[x['id']].get('init') is not None:
            x = strip_all_casts(decls[x['id']]['init'])
        elif isinstance(x, dict) and x.get('k') == 'Paren':
            x = strip_all_casts(x.get('sub'))
    parts = None
    if isinstance(x, dict) and x.get('k') == 'Bin' and x.get('op') == '-':
        parts = (x['lhs'], x['rhs'])
    elif isinstance(x, dict) and x.get('k') == 'Call' and x.get('ck') == 'operator' and x.get('op') == '-' and len(x.get('args', [])) == 2:
        parts = (x['args'][0], x['args'][1])
    if not parts:
        return None
    l, r = _unwrap(parts[0]), _unwrap(parts[1])
    for _ in range(3):
        if isinstance(r, dict) and r.get('k') == 'Ref' and r.get('id') in decls and r.get('id') not in marks and decls[r['id']].get('init') is not None:
            r = _unwrap(decls[r['id']]['init'])     # a named local for the declared end
    if isinstance(l, dict) and l.get('k') == 'Ref' and l.get('id') in decls and l.get('id') not in marks and decls[l['id']].get('init') is not None:
        l = strip_all_casts(decls[l['id']]['init'])
    if not (isinstance(l, dict) and l.get('k') == 'Call' and l.get('fn') == 'tellg' and recv_root(l) == 'm_uncompressedFile'):
        return None
    sum_ = None
    if isinstance(r, dict) and r.get('k') == 'Bin' and r.get('op') == '+':
        sum_ = (r['lhs'], r['rhs'])
    elif isinstance(r, dict) and r.get('k') == 'Call' and r.get('ck') == 'operator' and r.get('op') == '+' and len(r.get('args', [])) == 2:
        sum_ = (r['args'][0], r['args'][1])
    if not sum_:
        return None
    a, b = _unwrap(sum_[0]), _unwrap(sum_[1])
    for m_, o_ in ((a, b), (b, a)):
        if isinstance(m_, dict) and m_.get('k') == 'Ref' and m_.get('id') in marks and isinstance(o_, dict) and o_.get('k') == 'Member' and \
                o_.get('name') == 'objectSize' and local_id(o_.get('base')) == hdr_var:
            return marks[m_['id']]
    for m_, o_ in ((a, b), (b, a)):
        if isinstance(m_, dict) and m_.get('k') == 'Ref' and m_.get('id') in marks:
            # start mark + something that is not the declared size of the peeked header
            return marks[m_['id']].add(term='NOT-objectSize:' + expr_str(o_), k=1).add(term='objectSize', k=-1)
    return None


_NARROW_T = re.compile(r'^(const )?(unsigned |signed )?(int|short|char|long int)$|^(const )?u?int(8|16|32)_t$|^(const )?unsigned$')


def _excess_guard_bad(e, decls, marks, hdr_var):
    """T1g: a test of the excess  tellg() - (MARK + objectSize)  (what was read beyond the declared end) that decides whether the worker steps
    back must separate  excess >= 1  from  excess <= 0: with any other threshold (excess > objectSize % 4, ...) an object that was read
    beyond its declared end by less than the threshold leaves the get position inside the next object, whose signature is then missed.
    -> text of the offending test or None"""
    c = strip_all_casts(e.get('n')) if isinstance(e.get('n'), dict) else None
    while isinstance(c, dict) and c.get('k') == 'Paren':
        c = strip_all_casts(c.get('sub'))
    if not isinstance(c, dict) or c.get('k') != 'Bin' or c.get('op') not in ('<', '<=', '>', '>=', '==', '!='):
        return None
    L = _lin_seek(c['lhs'], decls, marks, hdr_var)
    R = _lin_seek(c['rhs'], decls, marks, hdr_var)

    def is_excess(cf):
        if cf is None:
            return 0
        d = {k_: v_ for k_, v_ in cf.items() if k_ != '1' and v_ != 0}
        mk = [k_ for k_ in d if str(k_).startswith('M:')]
        if len(d) == 3 and len(mk) == 1 and d.get('T') in (1, -1) and d.get('S') == -d['T'] and d[mk[0]] == -d['T']:
            return d['T']
        return 0
    op = c['op']
    if L is not None and R is not None:
        D = dict(L[0])
        for k_, v_ in R[0].items():
            D[k_] = D.get(k_, 0) - v_
        sg = is_excess(D)
        if not sg:
            return None
        k0 = D.get('1', 0)
        if sg < 0:      # -excess + k0 OP 0  <=>  excess - k0 FLIP(OP) 0
            op = {'<': '>', '<=': '>=', '>': '<', '>=': '<=', '==': '==', '!=': '!='}[op]
            k0 = -k0
        # excess + k0 OP 0
        good = (op in ('>', '<=') and k0 == 0) or (op in ('>=', '<') and k0 == -1) or (op in ('!=', '==') and k0 == 0)
        return None if good else expr_str(c)
    if (is_excess(L[0]) if L else 0) or (is_excess(R[0]) if R else 0):
        return expr_str(c)     # the excess compared with something that is not a constant
    return None


def _lin_seek(e, decls, marks, hdr_var, depth=0):
    """the argument of a relative seek as a linear form over  T (the get position now), M:<id> (a position mark taken earlier),
    S (the peeked header's objectSize) and constants; -> (coefficients dict, set of narrow types the value passes through) or None"""
    if not isinstance(e, dict) or depth > 12:
        return None
    k = e.get('k')
    if k == 'Cast':
        r = _lin_seek(e.get('sub'), decls, marks, hdr_var, depth + 1)
        if r is None:
            return None
        t = (e.get('t') or '').strip()
        if _NARROW_T.match(t) and any(x in r[0] for x in ('S', 'T')) or (_NARROW_T.match(t) and any(str(x).startswith('M:') for x in r[0])):
            # a 32 bit unsigned size (or a 64 bit distance) squeezed into a type that cannot hold it
            if not (t.replace('const ', '') in ('uint32_t', 'unsigned int', 'unsigned') and set(r[0]) == {'S'}):
                r = (r[0], r[1] | {t})
        return r
    if k == 'Paren':
        return _lin_seek(e.get('sub'), decls, marks, hdr_var, depth + 1)
    if k == 'Construct' and len(e.get('args', [])) == 1:
        return _lin_seek(e['args'][0], decls, marks, hdr_var, depth + 1)
    if 'v' in e and k in ('Lit', 'Ref', 'Un', 'Bin', 'Sizeof', None):
        return ({'1': e['v']}, set())
    if k == 'Ref' and e.get('id') in marks:
        return ({'M:%s' % e['id']: 1}, set())
    if k == 'Ref' and e.get('id') in decls and decls[e['id']].get('init') is not None:
        r = _lin_seek(decls[e['id']]['init'], decls, marks, hdr_var, depth + 1)
        if r is None:
            return None
        t = (decls[e['id']].get('t') or '').strip()
        if _NARROW_T.match(t) and (any(x in r[0] for x in ('T',)) or any(str(x).startswith('M:') for x in r[0]) or
                                   ('S' in r[0] and t.replace('const ', '') not in ('uint32_t', 'unsigned int', 'unsigned'))):
            r = (r[0], r[1] | {t})
        return r
    if k == 'Member' and e.get('name') == 'objectSize' and local_id(e.get('base')) == hdr_var:
        return ({'S': 1}, set())
    if k == 'Call' and e.get('fn') == 'tellg' and recv_root(e) == 'm_uncompressedFile':
        return ({'T': 1}, set())
    if k == 'Call' and str(e.get('fn') or '').startswith('operator ') and not e.get('args') and e.get('obj') is not None:
        return _lin_seek(e['obj'], decls, marks, hdr_var, depth + 1)      # fpos -> streamoff
    args, op = None, None
    if k == 'Un' and e.get('op') in ('-', '+'):
        args, op = [e['sub']], 'u' + e['op']
    elif k == 'Bin' and e.get('op') in ('+', '-'):
        args, op = [e['lhs'], e['rhs']], e['op']
    elif k == 'Call' and e.get('ck') == 'operator' and e.get('op') in ('+', '-') and len(e.get('args', [])) in (1, 2):
        args, op = e['args'], (e['op'] if len(e['args']) == 2 else 'u' + e['op'])
    if args is None:
        return None
    rs = [_lin_seek(a, decls, marks, hdr_var, depth + 1) for a in args]
    if any(r is None for r in rs):
        return None
    out, nar = {}, set()
    for j, (cf, nr) in enumerate(rs):
        sgn = -1 if (op == 'u-' or (op == '-' and j == 1)) else 1
        for s_, c_ in cf.items():
            out[s_] = out.get(s_, 0) + sgn * c_
        nar |= nr
    return ({s_: c_ for s_, c_ in out.items() if c_ != 0}, nar)


def HS_of(F):
    return None


def good_branch_like(e):
    """the stream-state test behind the header peek (normal end of data) - its exit is a return, not a throw"""
    return any(x.get('k') == 'Call' and x.get('fn') in ('good', 'eof') for x in walk(e['n']))


def _ptr_null_any(cond):
    c = strip_all_casts(cond)
    if isinstance(c, dict) and c.get('k') == 'Un' and c.get('op') == '!':
        s_ = strip_all_casts(c['sub'])
        return isinstance(s_, dict) and s_.get('k') in ('Ref', 'Call')
    return False


def S2S3(F, rep, FL, rules):
    fn, infos = offsets_u2q(F, FL)
    rep.saw_function(fn['name'])
    if 'S3' in rules:
        rep.count('S3')
        dec = [i for i in infos if i['decode_at'] is not None]
        bad = [i for i in dec if i['decode_at'].c != 0 or i['decode_at'].t != {'FILLER': 1}]
        rep.ob('S3', 'decode-at-object-start', not bad and bool(dec), rep.fn_site(fn),
               'obj->read() starts at the offset where the probing header read found the signature (offset = HDR - HDR = 0) on %d paths' % len(dec)
               if not bad and dec else 'the object is decoded from offset [%r] relative to its start' % (bad[0]['decode_at'] if bad else None), nontrivial=True)
    if 'S2' in rules:
        rep.count('S2')
        un = []
        for i in infos:
            # the createObject()==nullptr path
            nulls = [e for e in i['guards'] if any(x.get('lit') == 'null' for x in walk(e['n'])) and e['taken'] and
                     any(x.get('k') == 'Bin' and x.get('op') == '==' for x in walk(e['n']))]
            if nulls:
                un.append(i)
        bad = None
        for i in un:
            if i['end'].c != 0 or i['end'].t != {'objectSize': 1, 'FILLER': 1}:
                bad = 'ends at offset [%r] instead of start + objectSize' % i['end']
            if i['out'] not in ('normal', 'return'):
                bad = 'leaves by exception'
            if any(e['ev'] == 'assign' for e in i['evs'] if e['ev'] == 'assign' and 'Running' in str(_assign_target(e['n']))):
                bad = 'clears the running flag'
        # S5: in front of the factory the only way out by exception is the "declares less than a header" guard; S6: an object is skipped
        # by its declared size for one reason only - the factory does not know its type.  Any other test of what the file says about the
        # object (its headerSize, version, type ranges) ends the stream at, or silently drops, an object the rest of the code could handle
        rep.count('S2')
        s5 = None
        for i in infos:
            evs = i['evs']
            fact = [k_ for k_, e in enumerate(evs) if e['ev'] == 'call' and e['n'].get('fn') == 'createObject']
            brs = [e for e in (evs[:fact[0]] if fact else evs) if e['ev'] == 'branch']
            if not fact and isinstance(i['out'], tuple) and i['out'][0] == 'throw':
                # thrown before the factory was asked
                last = brs[-1] if brs else None
                hs = HS_of(F)
                ok_guard = False
                if last is not None:
                    at = _cmp_atoms(deep_resolve(last['n'], fn))
                    ok_guard = len(at) == 1 and {at[0][0], at[0][2]} in ({'objectSize', 'calculateHeaderSize()'},) or \
                        (len(at) == 1 and 'objectSize' in (at[0][0], at[0][2]) and any(str(x).endswith('calculateHeaderSize()') for x in (at[0][0], at[0][2])))
                if not ok_guard and last is not None and not good_branch_like(last):
                    s5 = 'throws in front of the factory on [%s] (line %s): an object that could be decoded or skipped ends the stream instead' % (expr_str(last['n']), last.get('l'))
            if i['unknown'] and i['out'] in ('normal', 'return'):
                nulls = [e for e in i['guards'] if any(x.get('lit') == 'null' for x in walk(e['n'])) and e['taken']]
                sp = [e for e in i['guards'] if e['taken'] and _ptr_null_any(e['n'])]
                if not nulls and not sp:
                    s5 = ('skips an object by its declared size on a path that never found createObject() == nullptr (%s): objects of a known type are '
                          'dropped' % fmt_events(evs, limit=12))
        # the pointer whose null-ness decides "skip" is what the factory returned for the peeked type - unconditionally
        for n_ in walk(fn['body'], into_lambda=False):
            if n_.get('k') == 'Decl':
                for v_ in n_['vars']:
                    if (v_.get('t') or '').endswith('*') and v_.get('init') is not None and any(x.get('k') == 'Call' and x.get('fn') == 'createObject' for x in walk(v_['init'])):
                        i_ = strip_all_casts(v_['init'])
                        if not (isinstance(i_, dict) and i_.get('k') == 'Call' and i_.get('fn') == 'createObject'):
                            s5 = s5 or ('asks the factory only under a condition (%s = %s, line %s): objects of a type the factory knows are skipped as if unknown'
                                        % (v_['name'], expr_str(v_['init'])[:120], n_.get('l')))
                        else:
                            a0 = strip_all_casts(deep_resolve(i_['args'][0], fn)) if i_.get('args') else None
                            if not (isinstance(a0, dict) and a0.get('k') == 'Member' and a0.get('name') == 'objectType'):
                                s5 = s5 or 'asks the factory for something other than the peeked objectType (%s)' % expr_str(i_['args'][0] if i_.get('args') else i_)
        rep.ob('S2', 'skip-and-throw-reasons', s5 is None, rep.fn_site(fn),
               'in front of the factory the worker throws only for objectSize < calculateHeaderSize(), and skips only what the factory does not know'
               if s5 is None else 'uncompressedFile2ReadWriteQueue ' + s5, nontrivial=True)
        rep.ob('S2', 'unknown-skip', bad is None and bool(un), rep.fn_site(fn),
               'unknown object type: the stream ends at object start + ohb.objectSize and the function returns normally (%d path(s))' % len(un)
               if bad is None and un else 'unknown object type path %s' % (bad or 'not found'), nontrivial=True)


def S4(F, rep):
    """the in-memory stream's seekg is relative and bounded only by the declared end: the new get position depends on the old get
    position, the offset and m_fileSize - on nothing else (data-flow slice of the assignment, through locals)"""
    fn = F.fn('Vector::BLF::UncompressedFile::seekg')
    rep.saw_function(fn['name'])
    rep.count('S4')
    params = {p['id']: p['name'] for p in fn['params']}
    local_init = {}
    for n in walk(fn['body'], into_lambda=False):
        if n.get('k') == 'Decl':
            for v in n['vars']:
                local_init.setdefault(v['id'], []).append(v.get('init'))
        if n.get('k') == 'Bin' and n.get('op') in ('=', '+=', '-=') and strip_all_casts(n['lhs']).get('k') == 'Ref':
            local_init.setdefault(strip_all_casts(n['lhs'])['id'], []).append(n['rhs'])
    deps = set()

    def collect(e, depth=0):
        for x in walk(e):
            if x.get('k') == 'Member' and x.get('dk') == 'field':
                deps.add(x['name'])
            elif x.get('k') == 'Ref' and x.get('dk') == 'parm':
                deps.add('param:' + params.get(x['id'], x.get('name')))
            elif x.get('k') == 'Ref' and x.get('dk') == 'local' and depth < 4:
                for i in local_init.get(x['id'], []):
                    if i is not None:
                        collect(i, depth + 1)
    assigns = []
    for n in walk(fn['body'], into_lambda=False):
        tgt = None
        if n.get('k') == 'Bin' and n.get('op') in ('=', '+=', '-='):
            tgt, rhs = n['lhs'], n['rhs']
        elif n.get('k') == 'Call' and n.get('ck') == 'operator' and n.get('op') in ('=', '+=', '-=') and len(n.get('args', [])) == 2:
            tgt, rhs = n['args'][0], n['args'][1]
        if tgt is not None and mname(tgt) == 'm_tellg':
            assigns.append((n, rhs))
            collect(rhs)
            if n.get('op') in ('+=', '-='):
                deps.add('m_tellg')
    # conditions guarding the assignment also steer the result
    cond_parm = None
    for n in walk(fn['body'], into_lambda=False):
        if n.get('k') == 'If':
            if any(a[0] is x for a in assigns for x in walk(n)):
                collect(n['cond'])
                # the clamp to the declared end holds for every offset: its guard compares the position with the end and nothing else
                # (`off > 0 && pos > end` leaves the get position behind a declared end that was lowered, for backward seeks)
                for at in [a_ for d_ in rules_pipeline.split_or(deep_resolve(n['cond'], fn)) for a_ in rules_pipeline.split_and(d_)]:
                    prm = [x for x in walk(at) if x.get('k') == 'Ref' and x.get('dk') == 'parm']
                    if prm and not any(x.get('k') == 'Member' and x.get('name') == 'm_fileSize' for x in walk(at)):
                        cond_parm = (prm[0].get('name'), n.get('l'))
    off = [pn for pn in params.values()]
    need = {'m_tellg', 'param:' + (off[0] if off else 'off')}
    allowed = need | {'m_fileSize'}
    extra = sorted(deps - allowed)
    missing = sorted(need - deps)
    ok = bool(assigns) and not extra and not missing
    if ok and cond_parm:
        rep.ob('S4', 'seekg|relative', False, rep.fn_site(fn, cond_parm[1]),
               'UncompressedFile::seekg: whether the new get position is limited to the declared end depends on the offset itself (%s in the test at line %s): '
               'for the other offsets the get position can stay behind the end' % cond_parm, nontrivial=True)
        return
    rep.ob('S4', 'seekg|relative', ok, rep.fn_site(fn),
           'UncompressedFile::seekg: the new get position is computed from the old one, the offset and the declared end only' if ok else
           'UncompressedFile::seekg: the new get position %s - skipping an unknown object no longer lands on the next object' %
           ('also depends on ' + ', '.join(extra) if extra else 'does not use ' + ', '.join(missing)), nontrivial=True)


def T1(F, rep, FL):
    """progress: the net advance per decode iteration has a positive lower bound (interval domain over objectSize)"""
    fn, infos = offsets_u2q(F, FL)
    rep.count('T1')
    # the probing header is an ObjectHeaderBase by value: evaluate its calculateHeaderSize() symbolically
    import codec
    outs = codec.Interp(F, OHB, 'size').run('calculateHeaderSize')
    if len(outs) != 1 or not outs[0].ret.is_const():
        raise AnalysisBroken('ObjectHeaderBase::calculateHeaderSize() is not a constant')
    HS = outs[0].ret.c
    # dominating lower bound on ohb.objectSize established by a comparison whose violating side leaves by throw/return
    def lower_bound(i):
        lo = 0
        atoms_ = []
        for e in i['guards']:
            c0 = strip(deep_resolve(e['n'], fn))
            work = [(c0, bool(e['taken']))]
            while work:
                c, tk = work.pop()
                while isinstance(c, dict) and (c.get('k') in ('Cast', 'Paren') or (c.get('k') == 'Un' and c.get('op') == '!')):
                    if c.get('k') == 'Un':
                        tk = not tk
                    c = strip(c['sub'])
                if isinstance(c, dict) and c.get('k') == 'Bin' and c.get('op') == '||' and not tk:
                    work += [(c['lhs'], False), (c['rhs'], False)]      # (a || b) is false: both are false
                elif isinstance(c, dict) and c.get('k') == 'Bin' and c.get('op') == '&&' and tk:
                    work += [(c['lhs'], True), (c['rhs'], True)]        # (a && b) is true: both are true
                elif isinstance(c, dict) and c.get('k') == 'Bin' and c.get('op') in ('<', '<=', '>', '>='):
                    atoms_.append((c, tk))
        for c, tk_ in atoms_:
            e = {'taken': tk_}
            flip = False
            l, r = strip_all_casts(c['lhs']), strip_all_casts(c['rhs'])
            def is_os(x):
                return isinstance(x, dict) and x.get('k') == 'Member' and x.get('name') == 'objectSize' and local_id(x.get('base')) == i['hdr_var']
            def val(x):
                if not isinstance(x, dict):
                    return None
                if 'v' in x:
                    return x['v']
                if x.get('k') == 'Call' and x.get('fn') in ('calculateHeaderSize',) and local_id(x.get('obj')) == i['hdr_var']:
                    return HS
                return None
            op = c['op']
            if is_os(r) and val(l) is not None:
                l, r = r, l
                op = {'<': '>', '<=': '>=', '>': '<', '>=': '<='}[op]
            if is_os(l) and val(r) is not None:
                v = val(r)
                t = e['taken'] != flip
                # objectSize OP v is `taken`
                if (op == '<' and not t):
                    lo = max(lo, v)
                elif (op == '<=' and not t):
                    lo = max(lo, v + 1)
                elif (op == '>=' and t):
                    lo = max(lo, v)
                elif (op == '>' and t):
                    lo = max(lo, v + 1)
        return lo
    bad = None
    n = 0
    for i in infos:
        if i['out'] not in ('normal', 'return'):
            continue
        if not i['unknown'] and i['decode_at'] is None:
            continue   # eof path: leaves the loop through good()
        n += 1
        lo = lower_bound(i)
        if i['unknown']:
            if lo <= 0:
                bad = ('unknown-type path advances by ohb.objectSize, whose lower bound is %d: an object declaring size 0 is skipped by 0 bytes '
                       'and found again forever' % lo)
                break
        else:
            end = i['end']
            if i.get('guard_bad'):
                bad = ('the test that decides whether the worker steps back to the declared end of the object (%s) does not separate "read beyond the '
                       'declared end" (excess >= 1) from "not beyond" (excess <= 0): an object read beyond its declared end by less than the threshold '
                       'leaves the get position inside the next object, whose signature is missed - the neighbour is lost' % i['guard_bad'])
                break
            if i.get('repos') == 'declared-end' and i.get('narrow'):
                bad = ('the step back to the declared end of the object is computed in %s: a declared size (or a distance) of 2 GiB and more turns '
                       'negative there and the get position is moved backwards by up to 2 GiB - the same bytes are decoded again, or the signature search '
                       'spins in released data' % '/'.join(i['narrow']))
                break
            if i.get('repos') == 'declared-end':
                # continue at (object start) + objectSize: needs the start mark at offset 0 and a positive lower bound on objectSize
                if end.c != 0 or end.t != {'objectSize': 1, 'FILLER': 1}:
                    other = [t_ for t_ in end.t if str(t_).startswith('NOT-objectSize:')]
                    bad = ('known-type path continues at object start + %s, not at the declared end start + objectSize: bytes between the two (the '
                           'beginning of the next object, when fewer fill bytes follow than expected) are swallowed' % other[0].split(':', 1)[1]) if other else \
                        ('known-type path continues at [%r] (FILLER = the bytes the signature search stepped over in front of the object; the object '
                         'starts at FILLER), not at object start + objectSize: the start mark was not taken at the object start' % end)
                    break
                if lo <= 0:
                    bad = ('known-type path continues at the declared end of the object; with objectSize unconstrained (lower bound %d) the net advance '
                           'can be 0 and the same object is delivered forever' % lo)
                    break
            elif str(i.get('repos')).startswith('expr:'):
                raise AnalysisBroken('T1: the re-positioning after the decode (%s) is of a form the offset algebra does not know' % i['repos'][:160])
            elif i.get('repos') is None:
                # no re-positioning on this path: the advance is what the decoder consumed - at least its header (checked below)
                if end.t.get('CONSUMED') != 1 or end.c != 0 or set(end.t) != {'CONSUMED', 'FILLER'} or end.t.get('FILLER') != 1:
                    bad = 'known-type path ends at offset [%r]' % end
                    break
            else:
                # the former shape: seekg(tmp), tmp = objectSize - calculateObjectSize() of the *fresh* object.  The net advance is
                # CONSUMED + objectSize - calculateObjectSize(): positive only if the decoder consumed what the fresh object's size function says
                short_readers = _classes_reading_by_size(F)
                if lo <= 0:
                    bad = ('known-type path re-positions by objectSize - calculateObjectSize() after decoding; with objectSize unconstrained (lower bound %d) '
                           'the net advance can be 0 and the same object is delivered forever' % lo)
                    break
                if short_readers:
                    bad = ('known-type path re-positions by objectSize - calculateObjectSize() of the freshly constructed object, i.e. it assumes read() consumed '
                           'exactly that many bytes; %d classes consume less for objects that declare a smaller / older layout (%s): for those the net '
                           'advance is objectSize - (calculateObjectSize() - consumed), which is <= 0 for small declared sizes - the same object is '
                           'found and delivered forever' % (len(short_readers), ', '.join(short_readers[:6])))
                    break
    # every decoder consumes at least the object header: each object class's read() starts with a base-class read()
    if bad is None:
        from rules_layout import object_classes
        nohdr = []
        for c in object_classes(F):
            ok_c = False
            for f in F.method(c, 'read'):
                for x in walk(f['body']):
                    if x.get('k') == 'Call' and x.get('fn') == 'read' and x.get('calleeInRoot') and (x.get('callee') or '').rsplit('::', 2)[-2:-1] != [c.rsplit('::', 1)[-1]]:
                        ok_c = True
            if not ok_c and c != OHB:
                nohdr.append(short(c))
        if nohdr:
            bad = 'decoders that do not start with the header read (no guaranteed consumption): %s' % ', '.join(nohdr[:5])
    rep.ob('T1', 'decode-loop|progress', bad is None and n > 0, rep.fn_site(fn),
           'uncompressedFile2ReadWriteQueue: every iteration that delivers or skips an object advances the stream by at least the guarded '
           'minimum object size (%d paths)' % n if bad is None else 'uncompressedFile2ReadWriteQueue: ' + bad, nontrivial=True)


def _classes_reading_by_size(F):
    """object classes whose read() takes a decision on the declared objectSize (optional tails, version probes): what they consume depends
    on the file, not on the size function of a fresh object"""
    import core as _core
    from rules_layout import LayoutRules, object_classes
    LR = LayoutRules(F, _core.Report(F))
    out = []
    for c in object_classes(F):
        try:
            I, paths = LR.read_paths(c)
        except AnalysisBroken:
            continue
        dep = False
        for p in paths:
            for g in p.guards:
                if isinstance(g, tuple) and g[0] == 'cmp':
                    for t, k in g[1]:
                        if t[0] == 'in' and t[1] and t[1][-1] == 'objectSize':
                            dep = True
        if dep:
            out.append(short(c))
    return sorted(out)


# ---------------------------------------------------------------------- B7 copy loops of the in-memory stream
def mname(e):
    e = strip_all_casts(e)
    return e.get('name') if isinstance(e, dict) and e.get('k') == 'Member' else None


def _norm(sx):
    return sx.replace('.operator long()', '').replace('this.', '')


def B7(F, rep):
    """every std::copy between a caller buffer and a container of the stream stays inside the container:
    the container is the one logContainerContaining(P) returned (post-condition read off its predicate:
    filePosition <= P < filePosition + SIZE), the offset is P - filePosition, the count is bounded by SIZE - offset, and
    SIZE is the field that the container invariant (B3) ties to the buffer's size()"""
    cls = 'Vector::BLF::UncompressedFile'
    finder = F.fn(cls + '::logContainerContaining')
    lam = [n for n in walk(finder['body']) if n.get('k') == 'Lambda']
    rep.count('B7')
    post = None
    if lam:
        rets = [r for r in walk(lam[0]['body']) if r.get('k') == 'Return']
        if rets:
            post = _norm(expr_str(rets[0]['value']))
    else:
        # a hand-written search loop: the condition under which a (non-null) container is returned
        for n in walk(finder['body']):
            if n.get('k') == 'If':
                rets = [r for r in walk(n.get('then') or {}) if r.get('k') == 'Return' and r.get('value') is not None and
                        strip_all_casts(r['value']).get('lit') != 'null']
                if rets:
                    post = _norm(expr_str(deep_resolve(n['cond'], finder)))
    pname = finder['params'][0]['name'] if finder['params'] else 'pos'
    # the predicate says exactly  filePosition <= pos  and  pos < filePosition + uncompressedFileSize  - in whatever spelling: operands
    # swapped, negated comparisons, De Morgan
    pred = None
    if lam:
        rets = [r for r in walk(lam[0]['body']) if r.get('k') == 'Return']
        pred = deep_resolve(rets[0]['value'], finder) if rets else None
    else:
        for n in walk(finder['body']):
            if n.get('k') == 'If' and [r for r in walk(n.get('then') or {}) if r.get('k') == 'Return' and r.get('value') is not None and
                                       strip_all_casts(r['value']).get('lit') != 'null']:
                pred = deep_resolve(n['cond'], finder)
    FLIP = {'<': '>', '<=': '>=', '>': '<', '>=': '<=', '==': '==', '!=': '!='}
    conj = set()
    nconj = 0
    for c_ in (rules_pipeline.split_and(pred) if pred is not None else []):
        nconj += 1
        cp = rules_pipeline.cmp_parts(c_)
        if cp is None:
            conj.add(('?', expr_str(c_)))
            continue
        a_, op_, b_ = _norm(expr_str(cp[0])), cp[1], _norm(expr_str(cp[2]))
        if b_ == pname:
            a_, op_, b_ = b_, FLIP[op_], a_
        conj.add((op_, b_) if a_ == pname else ('?', '%s %s %s' % (a_, op_, b_)))
    ok_post = nconj == 2 and ('>=', 'filePosition') in conj and \
        bool(conj & {('<', '(uncompressedFileSize + filePosition)'), ('<', '(filePosition + uncompressedFileSize)')})
    rep.ob('B7', 'logContainerContaining|postcondition', ok_post, rep.fn_site(finder),
           'logContainerContaining(pos) returns a container with filePosition <= pos < filePosition + uncompressedFileSize' if ok_post else
           'logContainerContaining selects containers by [%s]: a position outside [filePosition, filePosition + uncompressedFileSize) can be returned' % post,
           nontrivial=True)
    ncopies = 0
    for fn in methods_of(F, cls):
        decls = {}
        for n in walk(fn['body'], into_lambda=False):
            if n.get('k') == 'Decl':
                for v in n['vars']:
                    if v.get('init') is not None:
                        decls[v['name']] = v
        for n in walk(fn['body'], into_lambda=False):
            if not (n.get('k') == 'Call' and (n.get('callee') or '').startswith('std::copy')):
                continue
            ncopies += 1
            rep.count('B7')
            # single-assignment locals (offset, count, hoisted iterators) are replaced by their initialisers first
            args = [_norm(expr_str(deep_resolve(a_, fn))) for a_ in n['args']]
            cont = [a_ for a_ in args if 'uncompressedFile.cbegin()' in a_ or 'uncompressedFile.begin()' in a_]
            problems = []
            import re
            m = re.match(r'^\(uncompressedFile\.c?begin\(\) \+ (\((m_tell[gp]) - filePosition\))\)$', min(cont, key=len)) if cont else None
            if not m:
                problems.append('container-side iterator is not begin() + (position - filePosition): %s' % (cont[:1] or args))
            else:
                O, pos = m.group(1), m.group(2)
                first = min(cont, key=len)
                if len(cont) == 2:
                    last = max(cont, key=len)
                    G = last[len('(' + first + ' + '):-1] if last.startswith('(' + first + ' + ') else None
                else:
                    other = [a_ for a_ in args if a_ not in cont]
                    base = min(other, key=len) if other else ''
                    last2 = max(other, key=len) if other else ''
                    G = last2[len('(' + base + ' + '):-1] if last2.startswith('(' + base + ' + ') else None
                bound = '(uncompressedFileSize - %s)' % O
                if G is None:
                    problems.append('cannot identify the element count of the copy: %s' % args)
                elif not (G.startswith('min(') and (G.endswith(', ' + bound + ')') or G.startswith('min(' + bound + ', '))):
                    problems.append('the count [%s] is not min(., uncompressedFileSize - offset) with offset = %s' % (G, O))
                found = any('logContainerContaining(%s)' % pos in _norm(expr_str(x)) for x in walk(fn['body'], into_lambda=False)
                            if x.get('k') == 'Call' and x.get('fn') == 'logContainerContaining')
                if not found:
                    problems.append('the container is not the one logContainerContaining(%s) returned' % pos)
                else:
                    # ... looked up for the position of *this* step: the container the iterators belong to is a local that the same loop
                    # iteration initialises from the lookup.  A container kept in a member (or looked up only when the position has run off
                    # its end) is stale as soon as seekg() moves the position back: the offset goes negative
                    citer = [a_ for a_ in n['args'] if 'uncompressedFile' in _norm(expr_str(a_))]
                    root = None
                    for x in walk(citer[0]) if citer else ():
                        if x.get('k') == 'Member' and x.get('name') == 'uncompressedFile':
                            b_ = strip_all_casts(x.get('base'))
                            root = b_
                            for _ in range(4):
                                if isinstance(root, dict) and root.get('k') == 'Call' and root.get('ck') == 'operator' and root.get('args'):
                                    root = strip_all_casts(root['args'][0])
                                elif isinstance(root, dict) and root.get('k') == 'Un' and root.get('op') == '*':
                                    root = strip_all_casts(root['sub'])
                            break
                    if isinstance(root, dict) and root.get('k') == 'Member':
                        problems.append('the container the copy works on is the member %s, not the result of a lookup for the current position: after a '
                                        'seekg() back over its start the offset is negative' % root.get('name'))
                    elif isinstance(root, dict) and root.get('k') == 'Ref' and root.get('name') in decls:
                        i_ = strip_all_casts(decls[root['name']].get('init'))
                        while isinstance(i_, dict) and i_.get('k') == 'Construct' and len(i_.get('args', [])) == 1:
                            i_ = strip_all_casts(i_['args'][0])
                        if not (isinstance(i_, dict) and i_.get('k') == 'Call' and i_.get('fn') == 'logContainerContaining'):
                            problems.append('the container the copy works on (%s) is not initialised from logContainerContaining(%s)' % (root.get('name'), pos))
            rep.ob('B7', '%s|copy@%s' % (short(fn['name']) + ('/container' if 'shared_ptr' in fn['sig'] else ''), len([1 for _ in range(ncopies)])),
                   not problems, rep.fn_site(fn, n['l']),
                   '%s: std::copy stays inside the container (offset = pos - filePosition, count <= uncompressedFileSize - offset)' % short(fn['name'])
                   if not problems else '%s: std::copy may run past the container buffer: %s' % (short(fn['name']), '; '.join(problems)), nontrivial=True)
    if ncopies < 2:
        raise AnalysisBroken('B7: expected the two copy loops of UncompressedFile, found %d std::copy calls' % ncopies)
    # B3w: inside the stream class, the buffer and its size field are only ever changed together
    for fn in methods_of(F, cls):
        seq = []
        for n in flat_nodes(F, fn):
            if n.get('k') == 'Call' and n.get('fn') == 'resize' and mname(n.get('obj')) == 'uncompressedFile':
                seq.append(('resize', n['l'], _norm(expr_str(n['args'][0]))))
            if n.get('k') == 'Bin' and n.get('op') == '=' and mname(n['lhs']) == 'uncompressedFileSize':
                seq.append(('assign', n['l'], _norm(expr_str(n['rhs']))))
        if not seq:
            continue
        rep.count('B3')
        rs = [x for x in seq if x[0] == 'resize']
        asg = [x for x in seq if x[0] == 'assign']
        ok = len(rs) == len(asg) and all(a[2] == r[2] or a[2] == 'uncompressedFile.size()' for r, a in zip(rs, asg))
        rep.ob('B3', '%s|stream-container-invariant' % short(fn['name']), ok, rep.fn_site(fn, seq[0][1]),
               '%s resizes a container buffer and sets uncompressedFileSize to the same value (%s)' % (short(fn['name']), ', '.join(r[2] for r in rs)) if ok else
               '%s changes a container buffer and its size field inconsistently: %s' % (short(fn['name']), seq), nontrivial=True)


# ---------------------------------------------------------------------- R1/R2: the stream's copy loops advance consistently
def R1(F, rep):
    """in the copy loops of the in-memory stream, the number of bytes copied is the number by which the position, the caller's
    pointer, the remaining count (and, when reading, the get count) are advanced - all four are the same expression"""
    cls = 'Vector::BLF::UncompressedFile'
    found = 0
    for fn in methods_of(F, cls):
        loops = [n for n in walk(fn['body'], into_lambda=False) if n.get('k') in ('While', 'For', 'Do')]
        for lp in loops:
            copies = [n for n in walk(lp['body']) if n.get('k') == 'Call' and (n.get('callee') or '').startswith('std::copy')]
            if not copies:
                continue
            found += 1
            rep.count('R1')
            args = [_norm(expr_str(deep_resolve(a_, fn))) for a_ in copies[0]['args']]
            # count of the copy: the difference between the two iterators of the source range
            a0, a1 = args[0], args[1]
            cnt = a1[len('(' + a0 + ' + '):-1] if a1.startswith('(' + a0 + ' + ') else None
            upd = {}
            for n in walk(lp['body']):
                tgt = rhs = op = None
                if n.get('k') == 'Bin' and n.get('op') in ('+=', '-='):
                    tgt, rhs, op = n['lhs'], n['rhs'], n['op']
                elif n.get('k') == 'Call' and n.get('ck') == 'operator' and n.get('op') in ('+=', '-=') and len(n.get('args', [])) == 2:
                    tgt, rhs, op = n['args'][0], n['args'][1], n['op']
                if tgt is None:
                    continue
                t = strip_all_casts(tgt)
                name = t.get('name') if isinstance(t, dict) else None
                if name:
                    upd[name] = (op, _norm(expr_str(deep_resolve(rhs, fn))))
            is_read = any(k.startswith('m_tellg') for k in upd)
            want = {'m_tellg' if is_read else 'm_tellp': '+=', 's': '+=', 'n': '-='}
            if is_read:
                want['m_gcount'] = '+='
            problems = []
            if cnt is None:
                problems.append('cannot identify the count of the copy')
            if is_read and cnt is not None:
                asg = [x for x in walk(fn['body'], into_lambda=False) if x.get('k') == 'Bin' and x.get('op') == '=' and mname(x['lhs']) == 'm_gcount']
                if 'm_gcount' in upd:
                    # accumulated in place: it must start from 0 in front of the loop
                    if not any(x.get('l', 0) <= lp.get('l', 0) and any(y.get('v') == 0 for y in walk(x['rhs'])) for x in asg):
                        problems.append('m_gcount is accumulated in the loop but not reset in front of it: the count of the previous read is added')
                else:
                    # accumulated in a local and stored once behind the loop - then nothing may leave the function from inside the loop
                    locs = [k_ for k_, v_ in upd.items() if v_ == ('+=', cnt) and k_ not in ('s', 'n', 'm_tellg', 'm_tellp')]
                    stored = [x for x in asg if x.get('l', 0) > lp.get('l', 0) and (strip_all_casts(x['rhs']) or {}).get('name') in locs]
                    rets = [x for x in walk(lp['body']) if x.get('k') == 'Return']
                    if locs and stored and not rets:
                        want.pop('m_gcount')
                    elif locs and stored and rets:
                        want.pop('m_gcount')
                        problems.append('the byte count is accumulated in %s and stored into m_gcount behind the loop, but line %s returns from inside the loop: '
                                        'gcount() then still reports the previous read' % (locs[0], rets[0].get('l')))
            for name, op in want.items():
                if name not in upd:
                    problems.append('%s is not advanced in the loop' % name)
                elif upd[name][0] != op or (cnt is not None and upd[name][1] != cnt):
                    problems.append('%s %s %s, but %s bytes are copied' % (name, upd[name][0], upd[name][1], cnt))
            rep.ob('R1', '%s|%s' % (short(fn['name']), 'read' if is_read else 'write'), not problems, rep.fn_site(fn, lp['l']),
                   '%s: position, caller pointer, remaining count%s all advance by the number of bytes copied' % (short(fn['name']), ' and get count' if is_read else '')
                   if not problems else '%s: %s' % (short(fn['name']), '; '.join(problems)), nontrivial=True)
    # (fewer than two copy loops is left to the floor of R1 in rules/floors.json: R4 may have something more useful to say)


def R2(F, rep, FL):
    """a read that reaches beyond the declared end is shortened to what is left (n := m_fileSize - m_tellg) and reported (eof|fail);
    the declared end follows the put position when writes pass it"""
    cls = 'Vector::BLF::UncompressedFile'
    rd = [f for f in methods_of(F, cls) if f['simple'] == 'read']
    rep.count('R2')
    ok = False
    why = 'no branch on n + m_tellg > m_fileSize'
    for fn in rd:
        for n in walk(fn['body'], into_lambda=False):
            if n.get('k') != 'If':
                continue
            atoms = _cmp_atoms(deep_resolve(n['cond'], fn))      # (a private helper endsBehindEof(n) stands for the comparison it returns)
            if not any(a[1] == '>' and 'm_tellg' in a[0] and a[2] == 'm_fileSize' for a in atoms):
                continue
            asg = [x for x in walk(n.get('then') or {}) if x.get('k') == 'Bin' and x.get('op') == '=' and strip_all_casts(x['lhs']).get('name') == 'n']
            st = [x for x in walk(n.get('then') or {}) if x.get('k') == 'Bin' and x.get('op') == '=' and mname(x['lhs']) == 'm_rdstate']
            good_n = bool(asg) and _norm(expr_str(asg[0]['rhs'])) == '(m_fileSize - m_tellg)'
            good_s = bool(st) and {'eofbit', 'failbit'} <= {y.get('name') for y in walk(st[0]['rhs']) if y.get('k') == 'Ref'}
            ok = good_n and good_s
            why = 'shortened to m_fileSize - m_tellg: %s; eof|fail set: %s' % (good_n, good_s)
    # ... on every way through read(): a return in front of the end handling (for instance "stopped, nothing is handed out") delivers a short
    # count with the state still good - the signature search of the header decoder leaves an exhausted stream only through eof() and spins
    rep.count('R2')
    skipped = None
    npaths = 0
    for fn in rd:
        for evs, out in FL.paths(fn, follow=(), unroll=1):
            if out not in ('normal', 'return'):
                continue
            npaths += 1
            seen = False
            for e in evs:
                if e['ev'] == 'branch' and any(a[1] == '>' and 'm_tellg' in a[0] and a[2] == 'm_fileSize' for a in _cmp_atoms(deep_resolve(e['n'], fn))):
                    seen = True
            if not seen:
                skipped = evs
                break
    rep.ob('R2', 'read|end-handling-on-every-path', skipped is None and npaths > 0, rep.fn_site(rd[0]) if rd else None,
           'UncompressedFile::read tests the declared end on each of its %d paths' % npaths if skipped is None and npaths > 0 else
           'UncompressedFile::read can return without testing the declared end (%s): a short count with good() still true - the header '
           'decoder\'s signature search never ends' % (fmt_events(skipped, limit=10) if skipped else 'no path'), nontrivial=True)
    rep.ob('R2', 'read|short-at-end', ok, rep.fn_site(rd[0]) if rd else None,
           'UncompressedFile::read beyond the declared end is shortened to m_fileSize - m_tellg and sets eofbit|failbit' if ok else
           'UncompressedFile::read at the declared end: ' + why, nontrivial=True)
    wr = [f for f in methods_of(F, cls) if f['simple'] == 'write' and 'const char' in f['sig']]
    rep.count('R2')
    ok = False
    for fn in wr:
        for n in walk(fn['body'], into_lambda=False):
            if n.get('k') == 'If':
                atoms = _cmp_atoms(n['cond'])
                if any(a[0] == 'm_tellp' and a[1] in ('>=', '>') and a[2] == 'm_fileSize' for a in atoms):
                    asg = [x for x in walk(n.get('then') or {}) if x.get('k') == 'Bin' and x.get('op') == '=' and mname(x['lhs']) == 'm_fileSize']
                    ok = bool(asg) and _norm(expr_str(asg[0]['rhs'])) == 'm_tellp'
    rep.ob('R2', 'write|end-follows-put', ok, rep.fn_site(wr[0]) if wr else None,
           'UncompressedFile::write moves the declared end along with the put position once writes pass it' if ok else
           'UncompressedFile::write does not keep the declared end at or behind the put position', nontrivial=True)


# ---------------------------------------------------------------------- R4: a partial step is completed
def R4(F, rep):
    """an advance of the get/put position by min(request, room in the current container) is a partial step: it is only legal inside
    a loop that keeps going until the request is used up (the request is reduced by the same amount in the loop), or when the
    remainder (request - step) is passed on afterwards - otherwise the part of the request that does not fit into the current container
    is silently dropped and every later byte shifts"""
    cls = 'Vector::BLF::UncompressedFile'
    found = 0
    for fn in methods_of(F, cls):
        parms = {p_['name'] for p_ in fn.get('params', []) if p_.get('name')}
        loops = [n for n in walk(fn['body'], into_lambda=False) if n.get('k') in ('While', 'For', 'Do')]
        for n in walk(fn['body'], into_lambda=False):
            tgt = rhs = None
            if n.get('k') == 'Bin' and n.get('op') == '+=':
                tgt, rhs = n['lhs'], n['rhs']
            elif n.get('k') == 'Call' and n.get('ck') == 'operator' and n.get('op') == '+=' and len(n.get('args', [])) == 2:
                tgt, rhs = n['args'][0], n['args'][1]
            if tgt is None or mname(tgt) not in ('m_tellp', 'm_tellg'):
                continue
            step = _norm(expr_str(deep_resolve(rhs, fn)))
            if not step.startswith('min('):
                continue
            found += 1
            rep.count('R4')
            reqs = [p_ for p_ in parms if step.startswith('min(%s, ' % p_) or step.endswith(', %s)' % p_)]
            problem = None
            if not reqs:
                problem = 'the step %s is not bounded by the request' % step
            else:
                req = reqs[0]
                inloop = [lp for lp in loops if any(x is n for x in walk(lp['body']))]
                if inloop:
                    lp = inloop[-1]
                    dec = []
                    for x in walk(lp['body']):
                        t2 = r2 = None
                        if x.get('k') == 'Bin' and x.get('op') == '-=':
                            t2, r2 = x['lhs'], x['rhs']
                        elif x.get('k') == 'Call' and x.get('ck') == 'operator' and x.get('op') == '-=' and len(x.get('args', [])) == 2:
                            t2, r2 = x['args'][0], x['args'][1]
                        if t2 is not None and (strip_all_casts(t2) or {}).get('name') == req:
                            dec.append(_norm(expr_str(deep_resolve(r2, fn))))
                    cond = _norm(expr_str(lp.get('cond'))) if lp.get('cond') is not None else ''
                    if step not in dec:
                        problem = 'the loop around the step does not reduce the request %s by the step (%s)' % (req, dec or 'no decrement')
                    elif req not in cond:
                        problem = 'the loop around the step does not run on the remaining request (condition [%s])' % cond
                else:
                    later = [x for x in walk(fn['body'], into_lambda=False) if x.get('k') == 'Call' and x.get('l', 0) >= n.get('l', 0) and
                             any(('(%s - ' % req) in _norm(expr_str(deep_resolve(a_, fn))) for a_ in x.get('args', []))]
                    if not later:
                        problem = ('%s advances by %s once, outside any loop: when the request does not fit into the current container the rest of it is '
                                   'dropped and every later byte shifts' % (mname(tgt), step))
            rep.ob('R4', '%s|%s' % (short(fn['name']) + ('/container' if 'shared_ptr' in fn['sig'] else ''), mname(tgt)), problem is None, rep.fn_site(fn, n.get('l')),
                   '%s: the partial step %s is repeated until the request is used up' % (short(fn['name']), step) if problem is None else
                   '%s: %s' % (short(fn['name']), problem), nontrivial=True)
    # (fewer than two partial steps is left to the floor of R4 in rules/floors.json: another rule - B7 - may have more to say)


# ---------------------------------------------------------------------- R5: the put position moves only over stored bytes
def R5(F, rep, FL=None):
    """the put position of the stream is advanced only (a) by the number of bytes a std::copy has just stored in a container, in the same
    loop body, (a') by a step bounded by the room left in the container that holds the put position, or (b) by the size of the container that the same function appends to the list.  Any other advance moves the position over
    bytes no container holds: a later write then starts a container with a hole in front of it, the reader finds no container at the get
    position, returns nothing and stays 'good'."""
    cls = 'Vector::BLF::UncompressedFile'
    found = 0
    for fn in methods_of(F, cls):
        if fn.get('kind') in ('ctor', 'dtor'):
            continue
        loops = [n for n in walk(fn['body'], into_lambda=False) if n.get('k') in ('While', 'For', 'Do')]
        for n in walk(fn['body'], into_lambda=False):
            tgt = rhs = op = None
            if n.get('k') == 'Bin' and n.get('op') in ('+=', '=', '-='):
                tgt, rhs, op = n['lhs'], n['rhs'], n['op']
            elif n.get('k') == 'Call' and n.get('ck') == 'operator' and n.get('op') in ('+=', '=', '-=') and len(n.get('args', [])) == 2:
                tgt, rhs, op = n['args'][0], n['args'][1], n['op']
            elif n.get('k') == 'Un' and n.get('op') in ('++', '--'):
                tgt, rhs, op = n['sub'], None, n['op']
            if tgt is None or mname(tgt) != 'm_tellp':
                continue
            found += 1
            rep.count('R5')
            problem = None
            step = _norm(expr_str(deep_resolve(rhs, fn))) if rhs is not None else None
            if op != '+=':
                problem = 'm_tellp is changed by %s' % op
            else:
                inloop = [lp for lp in loops if any(x is n for x in walk(lp['body']))]
                # (a') a step bounded by the room left in the container that holds the put position stays inside bytes that exist
                # (containers are created zero-filled); whether the rest of the request is completed is R4's question
                room = '(uncompressedFileSize - (m_tellp - filePosition))'
                ok = bool(step) and step.startswith('min(') and (step.endswith(', ' + room + ')') or step.startswith('min(' + room + ', ')) and \
                    any(x.get('k') == 'Call' and x.get('fn') == 'logContainerContaining' and _norm(expr_str(deep_resolve(x['args'][0], fn))) == 'm_tellp'
                        for x in walk(fn['body'], into_lambda=False))
                if inloop and not ok:
                    for c in walk(inloop[-1]['body']):
                        if c.get('k') == 'Call' and (c.get('callee') or '').startswith('std::copy') and len(c.get('args', [])) == 3:
                            a = [_norm(expr_str(deep_resolve(a_, fn))) for a_ in c['args']]
                            if a[1] == '(%s + %s)' % (a[0], step) and 'uncompressedFile.begin()' in a[2]:
                                ok = True
                if not ok:
                    # (b) the size of the container appended by this function
                    pushes = [x for x in walk(fn['body'], into_lambda=False) if x.get('k') == 'Call' and x.get('fn') in ('push_back', 'emplace_back') and
                              (member_path(x.get('obj')) or (None,))[-1] == 'm_data']
                    if pushes and step == 'uncompressedFileSize':
                        pushed = local_id(pushes[0]['args'][0]) if pushes[0].get('args') else None
                        r_ = deep_resolve(rhs, fn)
                        mem = [x for x in walk(r_) if x.get('k') == 'Member' and x.get('name') == 'uncompressedFileSize']
                        ok = bool(mem) and pushed is not None and _ptr_root(mem[0]) == pushed
                        if ok and FL is not None:
                            # ... on every path: an early exit that advances the position without storing the container leaves a hole
                            for evs, out in FL.paths(fn, follow=(), unroll=1):
                                adv = [i_ for i_, e_ in enumerate(evs) if e_['ev'] in ('assign', 'call') and e_['n'] is n]
                                if adv and not any(e_['ev'] == 'call' and e_['n'] is pushes[0] for e_ in evs):
                                    ok = False
                                    problem = ('m_tellp += %s on a path that does not append the container (%s): the put position moves over bytes no '
                                               'container holds' % (step, fmt_events(evs, limit=10)))
                                    break
                if not ok and problem is None:
                    problem = ('m_tellp += %s is neither the count of a std::copy into a container in the same loop nor the size of a container this '
                               'function appends: the put position moves over bytes no container holds' % step)
            rep.ob('R5', '%s|m_tellp@%s' % (short(fn['name']) + ('/container' if 'shared_ptr' in fn['sig'] else ''), found), problem is None, rep.fn_site(fn, n.get('l')),
                   '%s: the put position advances by bytes that were just stored (%s)' % (short(fn['name']), step) if problem is None else
                   '%s: %s' % (short(fn['name']), problem), nontrivial=True)
    if found < 2:
        raise AnalysisBroken('R5: expected the two advances of m_tellp in UncompressedFile, found %d' % found)


# ---------------------------------------------------------------------- R3: appended containers never overlap the tail
def _ptr_root(e):
    """local/parameter id behind p->member / (*p).member / p.get()->member for raw and smart pointers; None otherwise"""
    e = strip_all_casts(e)
    for _ in range(6):
        if not isinstance(e, dict):
            return None
        if e.get('k') == 'Ref' and e.get('dk') in ('local', 'parm'):
            return e['id']
        if e.get('k') == 'Member':
            e = strip_all_casts(e.get('base'))
        elif e.get('k') == 'Call' and e.get('ck') == 'operator' and e.get('args'):
            e = strip_all_casts(e['args'][0])
        elif e.get('k') == 'Call' and e.get('fn') == 'get' and e.get('obj') is not None:
            e = strip_all_casts(e['obj'])
        elif e.get('k') == 'Un' and e.get('op') == '*':
            e = strip_all_casts(e['sub'])
        else:
            return None
    return None


def _ptr_null_test(cond, vid):
    """True: cond holds iff pointer vid is null; False: iff non-null; None: something else (raw and smart pointers)"""
    r = is_null_test(cond, vid)
    if r is not None:
        return r
    c = strip_all_casts(cond)
    if isinstance(c, dict) and c.get('k') == 'Un' and c.get('op') == '!':
        s = _ptr_null_test(c['sub'], vid)
        return None if s is None else (not s)
    if isinstance(c, dict) and c.get('k') == 'Call' and (c.get('fn') == 'operator bool' or (c.get('callee') or '').endswith('operator bool')):
        o = c.get('obj') if c.get('obj') is not None else (c.get('args') or [None])[0]
        if o is not None and local_id(o) == vid:
            return False
    if isinstance(c, dict) and c.get('k') == 'Call' and c.get('ck') == 'operator' and c.get('op') in ('==', '!=') and len(c.get('args', [])) == 2:
        a, b = (strip_all_casts(x) for x in c['args'])
        for x, y in ((a, b), (b, a)):
            if local_id(x) == vid and isinstance(y, dict) and y.get('lit') == 'null':
                return c['op'] == '=='
    return None


def _of_back(m):
    """m is <m_data.back()>-><field> (also through a local bound to m_data.back())"""
    b = strip_all_casts(m.get('base'))
    for _ in range(4):
        if not isinstance(b, dict):
            return False
        if b.get('k') == 'Call' and b.get('fn') == 'back' and (member_path(b.get('obj')) or (None,))[-1] == 'm_data':
            return True
        if b.get('k') == 'Call' and b.get('ck') == 'operator' and b.get('args'):
            b = strip_all_casts(b['args'][0])
        elif b.get('k') == 'Call' and b.get('fn') == 'get' and b.get('obj') is not None:
            b = strip_all_casts(b['obj'])
        elif b.get('k') == 'Un' and b.get('op') == '*':
            b = strip_all_casts(b['sub'])
        else:
            return False
    return False


def _r3_starts(evs, fn, pushed, where=None):
    """the values the appended container's filePosition is set to on this path; `where` (a list) receives, per value, the index of the
    event at which the value was taken (the declaration of the local it was kept in, or the assignment itself)"""
    starts = []
    for ei, e in enumerate(evs):
        if e['ev'] != 'assign':
            continue
        n = e['n']
        lhs, rhs = (n['lhs'], n['rhs']) if n.get('k') == 'Bin' else ((n['args'][0], n['args'][1]) if len(n.get('args', [])) == 2 else (None, None))
        if lhs is not None and mname(lhs) == 'filePosition' and n.get('op') == '=' and (pushed is None or _ptr_root(lhs) == pushed):
            r_ = deep_resolve(rhs, fn)
            taken_at = ei
            r0 = strip_all_casts(rhs)
            while isinstance(r0, dict) and r0.get('k') == 'Construct' and len(r0.get('args', [])) == 1:
                r0 = strip_all_casts(r0['args'][0])
            if isinstance(r0, dict) and r0.get('k') == 'Ref' and r0.get('dk') == 'local':
                for dj, d in enumerate(evs[:ei]):
                    if d['ev'] == 'decl' and d['var'].get('id') == r0.get('id'):
                        taken_at = dj
            vals = [(r_, fn)]
            c_ = strip_all_casts(r_)
            while isinstance(c_, dict) and c_.get('k') == 'Construct' and len(c_.get('args', [])) == 1:
                c_ = strip_all_casts(c_['args'][0])
            if isinstance(c_, dict) and c_.get('k') == 'Call' and c_.get('ck') == 'member' and c_.get('calleeInRoot') and not c_.get('args') and \
                    rules_pipeline._FACTS[0] is not None and (c_.get('obj') is None or (strip_all_casts(c_['obj']) or {}).get('k') == 'This'):
                # std::streampos endOfBufferedData() const: a private helper of the class that only computes the position - each value it can
                # return is a possible start
                hs = [h for h in rules_pipeline._FACTS[0].functions.get(c_.get('callee'), []) if h['sig'] == c_.get('csig') and h.get('access') == 2 and
                      h.get('class') == fn.get('class')]
                if len(hs) == 1 and not [x for x in walk(hs[0]['body']) if x.get('k') == 'Bin' and x.get('op') in ('=', '+=', '-=') or
                                         (x.get('k') == 'Call' and x.get('fn') in ('push_back', 'pop_front', 'resize', 'erase', 'clear'))]:
                    rets = [x for x in walk(hs[0]['body'], into_lambda=False) if x.get('k') == 'Return' and x.get('value') is not None]
                    if rets:
                        vals = [(deep_resolve(x['value'], hs[0]), hs[0]) for x in rets]
            for r_, f_ in vals:
                sx = _norm(expr_str(r_))
                if sx in ('(uncompressedFileSize + filePosition)', '(filePosition + uncompressedFileSize)'):
                    # both operands must be fields of the list's last element
                    mem = [x for x in walk(r_) if x.get('k') == 'Member' and x.get('name') in ('uncompressedFileSize', 'filePosition')]
                    if len(mem) == 2 and all(_of_back(x) for x in mem):
                        sx = 'END-OF-LAST'
                starts.append(sx)
                if where is not None:
                    where.append(taken_at)
    return starts


def _r3_free(evs, pi, fn):
    """on the path prefix evs[:pi]: no container of the list covers the put position any more"""
    lookups = {}
    for e in evs[:pi]:
        init = None
        vid = None
        if e['ev'] == 'decl' and e['var'].get('init') is not None:
            init, vid, nm = e['var']['init'], e['var']['id'], e['var']['name']
        elif e['ev'] == 'assign' and e['n'].get('k') in ('Bin', 'Call'):
            n = e['n']
            lhs, rhs = (n['lhs'], n['rhs']) if n.get('k') == 'Bin' else ((n['args'][0], n['args'][1]) if len(n.get('args', [])) == 2 else (None, None))
            if lhs is not None and n.get('op') == '=' and local_id(lhs) is not None:
                init, vid, nm = rhs, local_id(lhs), '?'
        if init is None:
            continue
        i_ = strip_all_casts(init)
        while isinstance(i_, dict) and i_.get('k') == 'Construct' and len(i_.get('args', [])) == 1:
            i_ = strip_all_casts(i_['args'][0])
        if isinstance(i_, dict) and i_.get('k') == 'Call' and i_.get('fn') == 'logContainerContaining' and \
                _norm(expr_str(deep_resolve(i_['args'][0], fn))) == 'm_tellp':
            lookups[vid] = nm
    for vid in lookups:
        for e in evs[:pi]:
            if e['ev'] == 'branch':
                t = _ptr_null_test(e['n'], vid)
                if t is not None and (t == bool(e['taken'])):
                    return True    # this path runs with "no container holds the put position"
        cut_buf = cut_len = False
        for e in evs[:pi]:
            n = e['n'] if e['ev'] in ('call', 'assign') else None
            if n is None:
                continue
            if e['ev'] == 'call' and n.get('fn') == 'resize' and mname(n.get('obj')) == 'uncompressedFile' and _ptr_root(n.get('obj')) == vid:
                cut_buf = _norm(expr_str(deep_resolve(n['args'][0], fn))) == '(m_tellp - filePosition)'
            if e['ev'] == 'assign' and n.get('k') == 'Bin' and n.get('op') == '=' and mname(n['lhs']) == 'uncompressedFileSize' and _ptr_root(n['lhs']) == vid:
                cut_len = _norm(expr_str(deep_resolve(n['rhs'], fn))) in ('(m_tellp - filePosition)', 'uncompressedFile.size()')
        if cut_buf and cut_len:
            return True
    return False


def R3(F, rep, FL):
    """the containers of the stream's list cover disjoint, ascending byte ranges: a container is appended only (a) when no
    container holds the put position (it then starts at the end of the last one), or (b) after the partly filled container that holds the
    put position was cut to the put position (buffer and size field) - otherwise logContainerContaining() keeps answering with the
    older container for the overlapping positions and bytes come back out of order"""
    cls = 'Vector::BLF::UncompressedFile'
    found = 0
    meths = methods_of(F, cls)
    for fn in meths:
        pushes = [n for n in walk(fn['body'], into_lambda=False) if n.get('k') == 'Call' and n.get('fn') in ('push_back', 'emplace_back') and
                  (member_path(n.get('obj')) or (None,))[-1] == 'm_data']
        if not pushes:
            continue
        found += 1
        rep.count('R3')
        push = pushes[0]
        pushed = local_id(push['args'][0]) if push.get('args') else None
        problems = []
        npaths = 0
        # the contexts in which "nothing covers the put position" has to hold: the function itself, or - for a private helper that
        # appends on behalf of its callers - every call of the helper in the other methods of the class
        contexts = []
        if fn.get('access') == 2:
            for c in meths:
                if c is fn:
                    continue
                calls = [n for n in walk(c['body'], into_lambda=False) if n.get('k') == 'Call' and n.get('callee') == fn['name'] and n.get('csig', fn['sig']) == fn['sig']]
                for cn in calls:
                    contexts.append((c, cn))
            if not contexts:
                contexts = [(fn, push)]
        else:
            contexts = [(fn, push)]
        for evs, out in FL.paths(fn, follow=(), unroll=1):
            if not any(e['ev'] == 'call' and e['n'] is push for e in evs):
                continue
            npaths += 1
            where = []
            starts = _r3_starts(evs, fn, pushed, where)
            if not (starts and all(s_ in ('m_tellp', 'END-OF-LAST') for s_ in starts)):
                problems.append('the appended container starts at %s, which is neither the put position nor the end of the last container (path %s)'
                                % (starts or 'an unassigned position', fmt_events(evs, limit=10)))
                break
            # the end of the last container is where the stream ends only once nothing covers the put position any more: taken earlier
            # (before the partly filled container is cut) it lies behind the put position and leaves a hole
            early = [w_ for s_, w_ in zip(starts, where) if s_ == 'END-OF-LAST' and fn.get('access') != 2 and not _r3_free(evs, w_ + 1, fn)]
            if early:
                problems.append('the appended container starts at the end of the last container as it was at line %s, i.e. before the container holding the put '
                                'position was found absent or cut to it: the bytes between the put position and that end belong to no container'
                                % evs[early[0]].get('l'))
                break
        if npaths == 0:
            problems.append('no path reaches the push')
        for c, point in contexts:
            if problems:
                break
            reach = 0
            for evs, out in FL.paths(c, follow=(), unroll=1):
                pi = [i for i, e in enumerate(evs) if e['ev'] == 'call' and (e['n'] is point or e['n'] is push)]
                if not pi:
                    continue
                reach += 1
                if not _r3_free(evs, pi[0], c):
                    problems.append('%s appends a container at the put position while an earlier, partly filled container may still cover it '
                                    '(no logContainerContaining(m_tellp) == null branch and no cut of that container to m_tellp - filePosition before the push; path %s)'
                                    % (short(c['name']), fmt_events(evs, limit=10)))
                    break
            if reach == 0 and not problems:
                problems.append('no path of %s reaches the append' % short(c['name']))
        rep.ob('R3', '%s|append-disjoint' % (short(fn['name']) + ('/container' if 'shared_ptr' in fn['sig'] else '')), not problems, rep.fn_site(fn, push['l']),
               '%s: an appended container starts where the stream ends and no older container covers the put position (%d publishing paths, %d context(s))'
               % (short(fn['name']), npaths, len(contexts))
               if not problems else '%s: %s' % (short(fn['name']), problems[0]), nontrivial=True)
    if found < 2:
        raise AnalysisBroken('R3: expected two publishing functions in UncompressedFile, found %d' % found)


# ---------------------------------------------------------------------- E4 sticky failure, P5 position before publication
def E4(F, rep):
    """a short read stays visible until the caller checks it: no stream operation a decoder performs resets the failure state
    (std::istream semantics: failbit is sticky)"""
    cls = 'Vector::BLF::UncompressedFile'
    n = 0
    for fn in methods_of(F, cls):
        if fn.get('kind') in ('ctor', 'dtor'):
            continue
        for a in walk(fn['body'], into_lambda=False):
            if a.get('k') == 'Bin' and a.get('op') in ('=', '&=', '|=') and mname(a['lhs']) == 'm_rdstate':
                n += 1
                rep.count('E4')
                refs = {x.get('name') for x in walk(a['rhs']) if x.get('k') == 'Ref'}
                ok = 'failbit' in refs or 'badbit' in refs
                rep.ob('E4', '%s|m_rdstate' % short(fn['name']) + ('' if ok else '|clears'), ok, rep.fn_site(fn, a['l']),
                       '%s sets the failure state (%s)' % (short(fn['name']), '|'.join(sorted(r for r in refs if r.endswith('bit')))) if ok else
                       '%s resets the stream state to %s: a later (even zero-length) read erases the failure of an earlier short read, and a '
                       'truncated object passes the good() check after decoding' % (short(fn['name']), '|'.join(sorted(r for r in refs if r.endswith('bit'))) or 'a non-failure value'),
                       nontrivial=True)
    if n == 0:
        raise AnalysisBroken('E4: UncompressedFile never sets m_rdstate')
    # the compressed file is a std::fstream: the same holds for its state - nothing but open()/close() may clear() it.  The padding seek at the
    # end of LogContainer::read comes between the short read and the good()-check that is meant to see it
    ccls = 'Vector::BLF::CompressedFile'
    rep.count('E4')
    bad = []
    nm = 0
    for fn in methods_of(F, ccls):
        if fn.get('kind') in ('ctor', 'dtor') or fn['simple'] in ('open', 'close'):
            continue
        nm += 1
        for a in walk(fn['body'], into_lambda=False):
            if a.get('k') == 'Call' and a.get('fn') in ('clear', 'setstate') and (member_path(a.get('obj')) or (None,))[-1] == 'm_file':
                if a['fn'] == 'clear' or not any(x.get('name') in ('failbit', 'badbit', 'eofbit') for x in walk(a)):
                    bad.append('%s calls m_file.%s() (line %s)' % (short(fn['name']), a['fn'], a.get('l')))
    rep.ob('E4', 'CompressedFile|state-not-cleared', not bad and nm > 0, None,
           'no operation of CompressedFile other than open()/close() clears the state of the underlying stream (%d methods)' % nm if not bad else
           '%s: the eof|fail state a short read left is erased before File checks good() - a truncated container is accepted' % '; '.join(bad[:3]), nontrivial=True)


def P5(F, rep, FL):
    """every container published into the stream's list has its filePosition assigned on the publishing path (the default 0 is only
    right for the very first container: after consumed containers were dropped, chaining from 0 appends useless containers)"""
    cls = 'Vector::BLF::UncompressedFile'
    found = 0
    for fn in methods_of(F, cls):
        pushes = [n for n in walk(fn['body'], into_lambda=False) if n.get('k') == 'Call' and n.get('fn') in ('push_back', 'emplace_back') and
                  (member_path(n.get('obj')) or (None,))[-1] == 'm_data']
        if not pushes:
            continue
        found += 1
        rep.count('P5')
        bad = None
        npaths = 0
        for evs, out in FL.paths(fn, follow=(), unroll=1):
            pi = [i for i, e in enumerate(evs) if e['ev'] == 'call' and e['n'] is pushes[0]]
            if not pi:
                continue
            npaths += 1
            # an assignment to <container>->filePosition anywhere on the path (before or right after the push, as write(container) does)
            asg = [e for e in evs if e['ev'] == 'assign' and ((e['n'].get('k') == 'Bin' and mname(e['n']['lhs']) == 'filePosition') or
                                                              (e['n'].get('k') == 'Call' and e['n'].get('args') and mname(e['n']['args'][0]) == 'filePosition'))]
            if not asg:
                bad = evs
                break
        rep.ob('P5', '%s|filePosition' % (short(fn['name']) + ('/container' if 'shared_ptr' in fn['sig'] else '')), bad is None and npaths > 0, rep.fn_site(fn, pushes[0]['l']),
               '%s: every published container gets its filePosition assigned (%d publishing paths)' % (short(fn['name']), npaths) if bad is None else
               '%s: a container is published with the default filePosition 0 on the path %s - after dropOldData() emptied the list the stream '
               'appends one useless container per container size' % (short(fn['name']), fmt_events(bad, limit=12)), nontrivial=True)
    if found < 2:
        raise AnalysisBroken('P5: expected two publishing functions in UncompressedFile, found %d' % found)


# ---------------------------------------------------------------------- P4: consumed data only
def _cmp_atoms(cond):
    """comparison atoms of a condition (through ||, &&, !, casts): (lhs, op, rhs) as normalised strings"""
    out = []
    for x in walk(cond):
        if x.get('k') == 'Bin' and x.get('op') in ('<', '>', '<=', '>='):
            out.append((_norm(expr_str(x['lhs'])), x['op'], _norm(expr_str(x['rhs']))))
        elif x.get('k') == 'Call' and x.get('ck') == 'operator' and x.get('op') in ('<', '>', '<=', '>=') and len(x.get('args', [])) == 2:
            out.append((_norm(expr_str(x['args'][0])), x['op'], _norm(expr_str(x['args'][1]))))
    return out


def path_facts(evs, fn):
    """comparison atoms whose truth value is known on a path: every branch condition is decomposed through !, a true conjunction and a
    false disjunction.  -> list of (lhs, op, rhs, truth) with normalised strings"""
    out = []
    for e in evs:
        if e['ev'] != 'branch':
            continue
        work = [(deep_resolve(e['n'], fn), bool(e['taken']))]
        while work:
            c, tv = work.pop()
            c = strip(c)
            while isinstance(c, dict) and (c.get('k') in ('Cast', 'Paren') or (c.get('k') == 'Un' and c.get('op') == '!')):
                if c.get('k') == 'Un':
                    tv = not tv
                c = strip(c['sub'])
            if not isinstance(c, dict):
                continue
            if c.get('k') == 'Bin' and c.get('op') == '&&':
                if tv:
                    work += [(c['lhs'], True), (c['rhs'], True)]
            elif c.get('k') == 'Bin' and c.get('op') == '||':
                if not tv:
                    work += [(c['lhs'], False), (c['rhs'], False)]
            elif c.get('k') == 'Bin' and c.get('op') in ('<', '>', '<=', '>=', '==', '!='):
                out.append((_norm(expr_str(c['lhs'])), c['op'], _norm(expr_str(c['rhs'])), tv))
            elif c.get('k') == 'Call' and c.get('ck') == 'operator' and c.get('op') in ('<', '>', '<=', '>=', '==', '!=') and len(c.get('args', [])) == 2:
                out.append((_norm(expr_str(c['args'][0])), c['op'], _norm(expr_str(c['args'][1])), tv))
    return out


def known_le(facts, a_set, b):
    """is  A <= b  known on the path for some A in a_set"""
    NEGOP = {'<': '>=', '>': '<=', '<=': '>', '>=': '<', '==': '!=', '!=': '=='}
    FLIPOP = {'<': '>', '>': '<', '<=': '>=', '>=': '<=', '==': '==', '!=': '!='}
    for l, o, r, tv in facts:
        if not tv:
            o = NEGOP[o]
        if r in a_set and l == b:
            l, r, o = r, l, FLIPOP[o]
        if l in a_set and r == b and o in ('<=', '<', '=='):
            return True
    return False


def P4(F, rep, FL):
    """dropOldData removes the front container only when it lies wholly behind the get position (and put position / end)"""
    fn = F.fn('Vector::BLF::UncompressedFile::dropOldData')
    rep.count('P4')
    bad = None
    n = 0
    for evs, out in FL.paths(fn, follow=()):
        pops = [i for i, e in enumerate(evs) if e['ev'] == 'call' and e['n'].get('fn') in ('pop_front', 'erase', 'pop') and
                (member_path(e['n'].get('obj')) or (None,))[-1] == 'm_data']
        if not pops:
            continue
        # an empty (null) front entry holds no bytes: popping it loses nothing
        nullfront = [e for e in evs[:pops[0]] if e['ev'] == 'branch' and not e['taken'] and
                     isinstance(strip_all_casts(e['n']), dict) and strip_all_casts(e['n']).get('fn') in ('operator bool',) and
                     not any(x.get('k') == 'Member' for x in walk(e['n']))]
        if nullfront:
            continue
        n += 1
        # on the way to the pop it is known that END(front) <= m_tellg, END = size + position of the front container (whatever form the test
        # has: `if (END > g) return`, `if (!(END <= g && ...)) break`, `while (END <= g) pop`, ...)
        ends = ('(uncompressedFileSize + filePosition)', '(filePosition + uncompressedFileSize)')
        okg = known_le(path_facts(evs[:pops[0]], fn), ends, 'm_tellg')
        okp = okg
        front = any(e['ev'] == 'call' and e['n'].get('fn') == 'front' for e in evs[:pops[0]])
        if not (okg and okp and front):
            bad = 'a path pops the front container without the guard position(front) <= m_tellg (guard=%s, position=end of front container: %s)' % (okg, okp and front)
            break
    rep.ob('P4', 'dropOldData|only-consumed', bad is None and n > 0, rep.fn_site(fn),
           'dropOldData pops the front container only if its end position is not beyond m_tellg (%d popping path(s))' % n if bad is None and n > 0 else
           'dropOldData: %s - unread bytes can be discarded' % (bad or 'no popping path'), nontrivial=True)


# ---------------------------------------------------------------------- DN null checks, Z1, K9
def DN(F, rep, FL):
    fn = F.fn(U2Q)
    rep.count('DN')
    owned = {vid: nm for vid, (nm, src) in owned_pointer_sources(fn).items() if 'createObject()' in src}
    bad = None
    for evs, out in FL.paths(fn, follow=()):
        for vid in owned:
            al = aliases_of(fn, vid)     # T * obj = owner.get();  the null test and the dereferences go through the alias
            checked = False
            started = False
            for e in evs:
                if e['ev'] == 'decl' and e['var']['id'] == vid:
                    started = True
                    continue
                if not started:
                    continue
                if e['ev'] == 'decl' and e['var']['id'] in al:
                    continue
                if e['ev'] == 'branch' and any(is_null_test(e['n'], v_) is not None or _ptr_null_test(e['n'], v_) is not None for v_ in [vid] + sorted(al)):
                    checked = True
                n_ = e.get('n') or {}
                ids = {vid} | set(al)
                deref = (e['ev'] == 'call' and n_.get('obj') is not None and local_id(n_.get('obj')) in ids and
                         n_.get('fn') not in ('get', 'release', 'reset', 'operator bool', 'swap')) or \
                    (e['ev'] == 'use' and n_.get('k') == 'Member' and n_.get('base') is not None and local_id(n_.get('base')) in ids)
                if deref and not checked:
                    bad = (owned[vid], e.get('l'))
    rep.ob('DN', 'createObject|null-check', bad is None and bool(owned), rep.fn_site(fn, bad[1] if bad else None),
           'the result of createObject() is dereferenced only after a null check' if bad is None else
           '%s is dereferenced (line %s) without a null check: unknown object types crash the reader' % bad, nontrivial=True)


def Z1(F, rep):
    fn = F.fn('Vector::BLF::AbstractFile::skipp')
    rep.saw_function(fn['name'])
    rep.count('Z1')
    decls = [v for n in walk(fn['body']) if n.get('k') == 'Decl' for v in n['vars']]
    vec = [v for v in decls if (v.get('rec') or '').startswith('std::vector')]
    ok = False
    why = 'no local std::vector buffer'
    if vec and vec[0].get('static'):
        ok = False
        why = 'keeps its zero buffer in a function-local static: every stream and thread shares it unsynchronised, a concurrent resize frees the bytes another thread is writing from'
    elif vec:
        v = vec[0]
        rs = [n for n in walk(fn['body']) if n.get('k') == 'Call' and n.get('fn') == 'resize' and local_id(n.get('obj')) == v['id']]
        wr = [n for n in walk(fn['body']) if n.get('k') == 'Call' and n.get('fn') == 'write']
        parm = fn['params'][0]['id']
        a0 = strip_all_casts(deep_resolve(wr[0]['args'][0], fn)) if wr else {}
        src_ok = bool(wr) and a0.get('fn') == 'data' and local_id(a0.get('obj')) == v['id']
        len_ok = bool(wr) and local_id(wr[0]['args'][1]) == parm and bool(rs) and local_id(rs[0]['args'][0]) == parm and len(rs[0]['args']) == 1
        # the only other writes into the buffer
        other = [n for n in walk(fn['body']) if n.get('k') in ('Call',) and local_id(n.get('obj')) == v['id'] and n.get('fn') not in ('resize', 'data', 'size', 'empty')]
        ok = src_ok and len_ok and not other
        why = 'writes s bytes from a std::vector<char> value-initialised by resize(s) (source=%s, lengths=%s, other writes=%d)' % (src_ok, len_ok, len(other))
    rep.ob('Z1', 'skipp|zero', ok, rep.fn_site(fn), 'AbstractFile::skipp ' + why, nontrivial=True)


def K11(F, rep, R, FL):
    """worker control flow is decided on synchronised outcomes only: a branch in a worker (its entry function or the transfer function it
    runs) that calls a position / size getter of a stage (tellg, tellp, fileSize, gcount, size) decides on a snapshot that another
    thread changes concurrently - the outcome, and with it the produced file or the delivered sequence, depends on the schedule.
    good() / eof() report the outcome of the worker's own last blocking operation and are the accepted idiom."""
    GETTERS = None   # any method of a stage: what matters is which members it reports and who changes them
    for q, t in sorted(R.threads.items()):
        role = 'T:' + q.split('::')[-1]
        fns = {q}
        for c in R.calls:
            if c['role'] == role:
                fns |= {x for x in c['chain'] if x.startswith(FILE + '::')}
        rep.count('K11')
        bad = []
        for name in sorted(fns):
            for fn in F.functions.get(name, []):
                for n in walk(fn['body'], into_lambda=False):
                    conds = []
                    if n.get('k') in ('If', 'While', 'Do', 'For'):
                        conds.append(n.get('cond'))
                    if n.get('k') == 'Cond':
                        conds.append(n.get('cond'))
                    for c in conds:
                        c2 = deep_resolve(c, fn) if c is not None else None
                        for x in walk(c2 or {}):
                            if x.get('k') == 'Call' and x.get('ck') == 'member' and recv_root(x) in R.stages and \
                                    len([p_ for p_ in (member_path(x.get('obj')) or ()) if not p_.startswith('$')]) == 1:
                                st = recv_root(x)
                                cls = R.stages[st]
                                # which member does the getter report, and which methods of the class change it?
                                gfn = [f for f in F.functions.get(x.get('callee'), []) if f['sig'] == x.get('csig')]
                                reported = {m_.get('name') for f in gfn for m_ in walk(f['body']) if m_.get('k') == 'Member' and m_.get('dk') == 'field'} - {'m_mutex'}
                                from rules_pipeline import writes_fields, guarded_fields
                                if any(writes_fields(f, set(guarded_fields(F, cls)[0])) for f in gfn):
                                    continue   # a transfer operation (it changes the stage), not a snapshot getter
                                writers = {f['name'] for f in methods_of(F, cls) if f.get('kind') not in ('ctor', 'dtor') and writes_fields(f, reported)}
                                # is one of those methods called by another role concurrently in this mode?
                                others = {cc['role'] for cc in R.calls if cc['stage'] == st and cc['phase'] == 'concurrent' and cc['callee'] in writers and
                                          cc['role'] != role and cc['mode'] in (t['mode'], 'any')}
                                if others:
                                    bad.append('%s line %s: branch on %s.%s(), which %s change(s) concurrently' % (short(name), n.get('l'), st, x['fn'], ', '.join(sorted(others))))
        rep.ob('K11', short(q), not bad, rep.fn_site(F.fn(q)),
               '%s: no control decision of the worker depends on a position/size snapshot of a shared stage' % short(q) if not bad else
               '%s: %s - the decision races with the other thread, results depend on the interleaving' % (short(q), '; '.join(bad[:3])), nontrivial=True)


def K12(F, rep, R, FL):
    """a write session is drained, never cut short: the members a write-mode worker's loop tests (its running flag) are changed by
    nobody but that worker before it is joined - a worker told to stop by close() leaves buffered objects unwritten whenever it is still
    busy, i.e. the produced file depends on how far the worker got"""
    close = R.close_fn
    n_threads = 0
    for q, t in sorted(R.threads.items()):
        if t['mode'] != 'write':
            continue
        n_threads += 1
        rep.count('K12')
        entry = F.fn(q)
        flags = set()
        for n in walk(entry['body'], into_lambda=False):
            if n.get('k') not in ('While', 'Do', 'For'):
                continue
            # what decides whether the loop goes on: its condition, and the conditions of the ifs in its body that break / return
            conds = [n['cond']] if n.get('cond') is not None else []
            for y in walk(n.get('body') or {}, into_lambda=False):
                if y.get('k') == 'If' and any(z.get('k') in ('Break', 'Return') for br in (y.get('then'), y.get('else')) if br for z in walk(br)):
                    conds.append(y['cond'])
            for c in conds:
                for x in walk(deep_resolve(c, entry)):
                    if x.get('k') == 'Member' and x.get('dk') == 'field' and F.field(FILE, x.get('name')) is not None:
                        b = strip_all_casts(x.get('base'))
                        if isinstance(b, dict) and b.get('k') in ('Ref', 'This') and not F.field(FILE, x['name'])[1].get('rec', '').startswith('Vector::BLF::'):
                            flags.add(x['name'])
        bad = None
        npaths = 0
        for evs, out in FL.paths(close, follow=()):
            taken = [R._mode_of_cond(e['n']) for e in evs if e['ev'] == 'branch' and e['taken'] and R._mode_of_cond(e['n'])]
            if taken != ['write']:
                continue
            npaths += 1
            j = [i for i, e in enumerate(evs) if e['ev'] == 'call' and e['n'].get('callee') == 'std::thread::join' and recv_root(e['n']) == t['member']]
            upto = j[0] if j else len(evs)
            for e in evs[:upto]:
                if e['ev'] == 'assign' and _assign_target(e['n']) in flags:
                    bad = 'close() [write] changes %s (line %s) before %s is joined' % (_assign_target(e['n']), e.get('l'), t['member'])
                    break
            if bad:
                break
        rep.ob('K12', short(q), bad is None and npaths > 0 and bool(flags), rep.fn_site(close),
               '%s runs until its input is exhausted: close() [write] leaves %s alone until the join (%d paths)' % (short(q), '/'.join(sorted(flags)), npaths)
               if bad is None and npaths > 0 and flags else
               '%s: %s - a worker that is still busy stops with data pending; what reaches the file depends on the interleaving' %
               (short(q), bad or ('no loop flag found' if not flags else 'no write-mode path through close()')), nontrivial=True)
        # ... and the worker itself gives up only because its INPUT has ended.  A worker that stops on a condition of its output side
        # (the file cannot be written any more) leaves the stage in front of it neither drained nor aborted: its producer blocks on the
        # full buffer for ever, and close() waits for that producer
        rep.count('K12')
        role = 'T:' + q.split('::')[-1]
        inputs = {c['stage'] for c in R.calls if c['role'] == role and c['method'] == 'read'}
        stages = set(R.stages)
        foreign = None

        def scan(n, conds):
            nonlocal foreign
            if not isinstance(n, dict) or foreign:
                return
            if n.get('k') == 'If':
                scan(n.get('then'), conds + [n['cond']])
                scan(n.get('else'), conds + [n['cond']])
                return
            if n.get('k') in ('While', 'For', 'Do'):
                scan(n.get('body'), conds)
                return
            tgt = _assign_target(n) if n.get('k') in ('Bin', 'Call') and n.get('op') == '=' else None
            if tgt in flags:
                used = set()
                for c in conds:
                    for x in walk(deep_resolve(c, entry)):
                        if x.get('k') == 'Member' and x.get('dk') == 'field' and x.get('name') in stages:
                            used.add(x['name'])
                if used - inputs:
                    foreign = (tgt, n.get('l'), sorted(used - inputs))
                return
            for ch in children(n):
                scan(ch, conds)
        scan(entry['body'], [])
        rep.ob('K12', short(q) + '|ends-on-input', foreign is None and bool(inputs), rep.fn_site(entry, foreign[1] if foreign else None),
               '%s stops only when its input (%s) has ended' % (short(q), '/'.join(sorted(inputs))) if foreign is None and inputs else
               ('%s clears %s (line %s) on a condition of %s, which is not its input (%s): the producer in front of it keeps filling a buffer nobody '
                'empties and blocks for ever - write() and close() never return' % (short(q), foreign[0], foreign[1], '/'.join(foreign[2]), '/'.join(sorted(inputs))))
               if foreign else '%s: the stage it reads from was not found' % short(q), nontrivial=True)
    if n_threads < 2:
        raise AnalysisBroken('K12: expected two write-mode worker threads, found %d' % n_threads)


def E5(F, rep, R):
    """the read pipeline takes no decision on the totals in the file header (fileStatistics.fileSize / uncompressedFileSize / objectCount /
    restorePointsOffset): a logger that crashed, or is still writing, leaves them zero or stale, and a loop that stops 'at the declared
    size' then stops after the first container although the data goes on"""
    TOTALS = {'fileSize', 'uncompressedFileSize', 'objectCount', 'restorePointsOffset', 'objectsRead'}
    n_fn = 0
    for q, t in sorted(R.threads.items()):
        if t['mode'] != 'read':
            continue
        role = 'T:' + q.split('::')[-1]
        fns = {q}
        for c in R.calls:
            if c['role'] == role:
                fns |= {x for x in c['chain'] if x.startswith(FILE + '::')}
        rep.count('E5')
        bad = []
        for name in sorted(fns):
            for fn in F.functions.get(name, []):
                n_fn += 1
                for n in walk(fn['body'], into_lambda=False):
                    conds = [n.get('cond')] if n.get('k') in ('If', 'While', 'Do', 'For', 'Cond', 'Switch') else []
                    for c in conds:
                        for x in walk(deep_resolve(c, fn) if c is not None else {}):
                            p_ = member_path(x) if x.get('k') == 'Member' else None
                            if p_ and len(p_) >= 2 and 'fileStatistics' in p_[:-1] and p_[-1] in TOTALS:
                                bad.append('%s line %s tests fileStatistics.%s' % (short(name), n.get('l'), p_[-1]))
        rep.ob('E5', short(q), not bad, rep.fn_site(F.fn(q)),
               '%s: no decision of the read worker depends on the totals in the file header' % short(q) if not bad else
               '%s: %s - with the initial (all-zero) or a stale header the worker stops although complete containers follow' % (short(q), '; '.join(bad[:3])),
               nontrivial=True)
    if n_fn < 4:
        raise AnalysisBroken('E5: expected the two read workers and their transfer functions, found %d functions' % n_fn)


def O5(F, rep):
    """the pipeline classes keep no raw pointer, reference or iterator member into storage that another member owns: the containers of
    the stream live in shared_ptrs that dropOldData() releases, queue elements are handed out - a cached `LogContainer *` / iterator
    dangles as soon as the element is popped"""
    rep.count('O5')
    bad = []
    n = 0
    for cls in core_pipeline_classes(F):
        r = F.records.get(cls)
        if not r:
            continue
        for f in r['fields']:
            n += 1
            t = f.get('t') or ''
            if t.rstrip().endswith('*') or t.rstrip().endswith('&') or 'iterator' in t or t.startswith('std::weak_ptr') or t.startswith('std::reference_wrapper'):
                if 'Vector::BLF::' in t or 'iterator' in t:
                    bad.append('%s::%s (%s)' % (short(cls), f['name'], t))
    rep.ob('O5', 'non-owning-members', not bad and n > 0, None,
           'no pipeline class holds a raw pointer / reference / iterator member into storage owned elsewhere (%d members)' % n if not bad else
           'non-owning member into released storage: %s - it dangles once the element is dropped or handed over' % '; '.join(bad[:3]), nontrivial=True)


def core_pipeline_classes(F):
    import core
    out = [c for c in core.PIPELINE_CLASSES if c in F.records]
    out += [c for c in F.records if c.startswith('Vector::BLF::ObjectQueue<')]
    return out


def K13(F, rep, R):
    """abort() of a stage is a shutdown action: it is called by close() and by the stage's own destructor, never by a worker.  abort()
    disables every wait of the stage for good - a producer that keeps running behind it (the other worker is only stopped by close())
    is no longer held back by the capacity and buffers the rest of the file"""
    rep.count('K13')
    allowed = {R.close_fn['name']}
    # ... or by a private part of close() (stopReadSession()): a File method that no thread entry reaches
    worker_reach = set()
    for q in R.threads:
        todo = [q]
        while todo:
            nm = todo.pop()
            if nm in worker_reach:
                continue
            worker_reach.add(nm)
            for f_ in F.functions.get(nm, []):
                for x in walk(f_['body']):
                    if x.get('k') == 'Call' and (x.get('callee') or '').startswith(FILE + '::') and x.get('calleeInRoot'):
                        todo.append(x['callee'])
    close_reach = set()
    todo = [R.close_fn['name']]
    while todo:
        nm = todo.pop()
        if nm in close_reach:
            continue
        close_reach.add(nm)
        for f_ in F.functions.get(nm, []):
            for x in walk(f_['body']):
                if x.get('k') == 'Call' and (x.get('callee') or '').startswith(FILE + '::') and x.get('calleeInRoot'):
                    todo.append(x['callee'])
    bad = []
    n = 0
    for name, fns in F.functions.items():
        for fn in fns:
            for x in walk(fn['body']):
                if x.get('k') == 'Call' and x.get('fn') == 'abort' and x.get('calleeInRoot'):
                    n += 1
                    if fn['name'] in allowed or fn.get('kind') == 'dtor' or \
                            (fn.get('class') == FILE and fn.get('access') == 2 and fn['name'] in close_reach and fn['name'] not in worker_reach):
                        continue
                    bad.append('%s calls %s (line %s)' % (short(fn['name']), short(x.get('callee') or 'abort'), x.get('l')))
    rep.ob('K13', 'abort|callers', not bad and n > 0, rep.fn_site(R.close_fn),
           'abort() is called only by File::close() and by destructors (%d call sites)' % n if not bad else
           'abort() outside the shutdown path: %s - the waits of that stage are disabled while the other worker still runs' % '; '.join(bad[:3]), nontrivial=True)


def G1(F, rep):
    """no mutable function-local static in library code: such state is shared by all threads and all File instances without
    synchronisation (and makes output depend on earlier activity in the process)"""
    rep.count('G1')
    bad = []
    nfn = 0
    for name, fns in F.functions.items():
        for fn in fns:
            nfn += 1
            for n in walk(fn['body']):
                if n.get('k') == 'Decl':
                    for v in n['vars']:
                        if v.get('static') and not v.get('constType'):
                            bad.append('%s in %s (%s:%s)' % (v['name'], short(fn['name']), F.rel(fn['file']), n.get('l')))
                        elif v.get('static') and v.get('init') is not None and \
                                any(x.get('k') in ('Call', 'Member', 'This', 'New') or (x.get('k') == 'Ref' and x.get('dk') in ('local', 'parm')) for x in walk(v['init'])) and \
                                'v' not in (strip_all_casts(v['init']) or {}):
                            # const, but initialised from run-time state by whoever comes first: every later caller (another File, another
                            # configuration) lives with that value
                            bad.append('%s in %s (%s:%s; const, initialised once from run-time state)' % (v['name'], short(fn['name']), F.rel(fn['file']), n.get('l')))
    rep.ob('G1', 'static-locals', not bad, None,
           'no mutable function-local static variable in %d library functions' % nfn if not bad else
           'mutable function-local static state: ' + '; '.join(bad[:4]), nontrivial=True)


def K9(F, rep, R, FL):
    """File fields touched by worker roles are atomic, internally synchronised stages, or phase-exclusive"""
    file_rec = F.rec(FILE)
    fields = {f['name']: f for f in file_rec['fields']}
    acc = {}   # field -> list of (role, mode, phase, write)

    def scan_fn(fn, role, mode, phase, seen):
        key = (fn['name'], fn['sig'], role, mode, phase)
        if key in seen:
            return
        seen.add(key)
        if fn.get('class') != FILE:
            return
        _scan_body(fn['body'], role, mode, phase, seen)

    def _scan_body(body, role, mode, phase, seen, only=None):
        def rec(n, wr):
            if not isinstance(n, dict):
                return
            k = n.get('k')
            if k == 'Member' and n.get('dk') == 'field' and n.get('owner') == FILE:
                acc.setdefault(n['name'], []).append((role, mode, phase, wr))
            if k == 'Bin' and n.get('op') in ('=', '+=', '-=', '|=', '&='):
                rec(n['lhs'], True)
                rec(n['rhs'], False)
                return
            if k == 'Un' and n.get('op') in ('++', '--'):
                rec(n['sub'], True)
                return
            if k == 'Call' and n.get('ck') == 'operator' and n.get('op') in ('=', '+=', '++', '--', '-='):
                for j, a in enumerate(n.get('args', [])):
                    rec(a, j == 0)
                return
            if k == 'Call' and n.get('ck') == 'member' and n.get('obj') is not None:
                rec(n['obj'], not n.get('cconst'))
                for a in n.get('args', []):
                    rec(a, False)
                if n.get('calleeInRoot'):
                    for c in FL.resolve(n):
                        scan_fn(c, role, mode, phase, seen)
                return
            if k in ('Call', 'Construct') and n.get('calleeInRoot'):
                for c in FL.resolve(n):
                    scan_fn(c, role, mode, phase, seen)
            for c in children(n):
                rec(c, False)
        rec(body, False)

    seen = set()
    for q, t in R.threads.items():
        scan_fn(F.fn(q), 'T:' + q.split('::')[-1], t['mode'], 'concurrent', seen)
    # APP: phase-aware for open/close via events, concurrent for the rest
    for m in file_rec['methods']:
        if m['access'] != 0:
            continue
        for fn in F.functions.get(m['qname'], []):
            if fn['sig'] != m['sig']:
                continue
            if fn is R.open_fn or fn is R.close_fn:
                for evs, out in FL.paths(fn, follow=()):
                    if fn is R.close_fn:
                        taken = {R._mode_of_cond(e['n']) for e in evs if e['ev'] == 'branch' and e['taken'] and R._mode_of_cond(e['n'])}
                        if len(taken) > 1:
                            continue
                    starts = [i for i, e in enumerate(evs) if e['ev'] == 'call' and e['n'].get('k') == 'Construct' and (e['n'].get('cls') or '').startswith('std::thread') and e['n'].get('args')]
                    joins = {}
                    for i, e in enumerate(evs):
                        if e['ev'] == 'call' and e['n'].get('callee') in ('std::thread::join', 'std::thread::joinable'):
                            joins.setdefault(field_root(member_path(e['n'].get('obj'))), i)
                    for i, e in enumerate(evs):
                        if fn is R.open_fn:
                            phase = 'pre-start' if (not starts or i < starts[0]) else 'concurrent'
                        else:
                            # per-thread exclusion: which thread handles have been joined before this event
                            done = tuple(sorted(m for m, j in joins.items() if j < i))
                            phase = 'post-join' if len(done) >= 2 else ('joined:' + ','.join(done) if done else 'concurrent')
                        mode = 'any'
                        for g in evs[:i]:
                            if g['ev'] == 'branch' and g['taken'] and R._mode_of_cond(g['n']):
                                mode = R._mode_of_cond(g['n'])
                        if e['ev'] == 'use' and e['n'].get('k') == 'Member' and e['n'].get('owner') == FILE:
                            acc.setdefault(e['n']['name'], []).append(('APP', mode, phase, False))
                        elif e['ev'] == 'assign':
                            t = _assign_target(e['n'])
                            if t in fields:
                                acc.setdefault(t, []).append(('APP', mode, phase, True))
                        elif e['ev'] == 'call' and e['n'].get('calleeInRoot'):
                            for c in FL.resolve(e['n']):
                                scan_fn(c, 'APP', mode, phase, seen)
            elif m['kind'] == 'ctor':
                scan_fn(fn, 'APP', 'any', 'pre-start', seen)
            elif m['kind'] == 'dtor' or fn['simple'] == 'open':
                continue   # ~File only calls close(); open(std::string) only delegates to the overload analysed above
            else:
                scan_fn(fn, 'APP', {'read': 'read', 'write': 'write'}.get(fn['simple'], 'any'), 'concurrent', seen)
    for name, lst in sorted(acc.items()):
        troles = {(r, m) for (r, m, p, w) in lst if r != 'APP'}
        if not troles:
            continue
        rep.count('K9')
        f = fields[name]
        t = f['t']
        if t.startswith('std::atomic<'):
            rep.ob('K9', name, True, None, 'File::%s is std::atomic (accessed by %s)' % (name, sorted({r for r, m in troles})), nontrivial=True)
            continue
        if name in R.stages:
            rep.ob('K9', name, True, None, 'File::%s is an internally synchronised stage' % name, nontrivial=True)
            continue
        if t.startswith('std::thread'):
            rep.ob('K9', name, True, None, 'File::%s is the thread handle' % name)
            continue
        problems = []
        member_of = {'T:' + q.split('::')[-1]: t['member'] for q, t in R.threads.items()}
        for mode in ('read', 'write'):
            ts = {r for (r, m, p, w) in lst if r != 'APP' and m in (mode, 'any')}
            twrites = any(w for (r, m, p, w) in lst if r != 'APP' and m in (mode, 'any'))
            need = {member_of[r] for r in ts}
            app_conc = [(p, w) for (r, m, p, w) in lst if r == 'APP' and m in (mode, 'any') and
                        (p == 'concurrent' or (p.startswith('joined:') and not need <= set(p[7:].split(','))))]
            if len(ts) > 1 and twrites:
                problems.append('%s mode: written and accessed by several workers %s' % (mode, sorted(ts)))
            if ts and app_conc and (twrites or any(w for p, w in app_conc)):
                problems.append('%s mode: accessed by %s and concurrently by the application thread (%s)' %
                                (mode, sorted(ts), 'write' if any(w for p, w in app_conc) else 'read'))
        rep.ob('K9', name, not problems, None,
               'File::%s (%s, not atomic): workers %s; application only pre-start/post-join or read-only' % (name, t, sorted({r for r, m in troles}))
               if not problems else 'File::%s (%s) is not atomic and %s - data race' % (name, t, '; '.join(problems)), nontrivial=True)
