"""Concurrency / pipeline rules: K1-K10, T2, Q1-Q2, P1-P3 (DESIGN 5: C06, C07, C11, C12, C16)."""
from facts import AnalysisBroken, walk, children, strip, strip_all_casts, member_path
from core import short
import re
import flow
from flow import fmt_events
from roles import Roles, field_root, FILE

MUTEX_T = 'std::mutex'
CV_T = 'std::condition_variable'
LOCK_CLASSES = ('std::lock_guard', 'std::unique_lock')
MUTATING = {'push', 'pop', 'push_back', 'pop_front', 'pop_back', 'push_front', 'resize', 'clear', 'emplace', 'emplace_back', 'insert',
            'erase', 'assign', 'swap'}


def flat_nodes(F, fn, depth=0, seen=None):
    """nodes of a method together with the bodies of the private helpers of the same class it calls on this (extracted methods):
    tree-based rules look at the method as if the helpers were written in place"""
    seen = seen if seen is not None else set()
    for n in walk(fn['body']):
        yield n
        if depth < 3 and n.get('k') == 'Call' and n.get('ck') == 'member' and n.get('calleeInRoot') and n.get('clsq') == fn.get('class') and not n.get('virt'):
            o = strip_all_casts(n.get('obj')) if n.get('obj') is not None else None
            if o is None or (isinstance(o, dict) and o.get('k') == 'This'):
                for c in F.functions.get(n.get('callee'), []):
                    if c['sig'] == n.get('csig') and c.get('access') == 2 and (c['name'], c['sig']) not in seen and c['name'] != fn['name']:
                        seen.add((c['name'], c['sig']))
                        yield from flat_nodes(F, _bound_copy(c, n), depth + 1, seen)
        if depth < 3 and n.get('k') == 'Call' and n.get('ck') == 'function' and n.get('calleeInRoot'):
            # a file-local helper function of the same translation unit (static void truncateLogContainer(LogContainer &, ...))
            for c in F.functions.get(n.get('callee'), []):
                if c['sig'] == n.get('csig') and c.get('kind') == 'function' and c.get('file') == fn.get('file') and (c['name'], c['sig']) not in seen:
                    seen.add((c['name'], c['sig']))
                    yield from flat_nodes(F, _bound_copy(c, n), depth + 1, seen)


def _bound_copy(c, call):
    """the helper as the call site sees it: parameters bound to the arguments where that is sound (flow.Flow.bind_params)"""
    try:
        body = flow.Flow.bind_params(c.get('params', []), call.get('args', []), c['body'])
    except Exception:
        return c
    if body is c['body']:
        return c
    c2 = dict(c)
    c2['body'] = body
    return c2


def is_private_helper(F, fn):
    """a private method that is only reached through other methods of its class"""
    return fn.get('access') == 2 and fn.get('kind') == 'method'


def stage_classes(F, R):
    return sorted(set(R.stages.values()))


def methods_of(F, cls):
    out = []
    for name, fns in F.functions.items():
        for f in fns:
            if f.get('class') == cls:
                out.append(f)
    return sorted(out, key=lambda f: (f['file'], f['line']))


def guarded_fields(F, cls):
    r = F.rec(cls)
    g, cvs, mtx = [], [], []
    for f in r['fields']:
        if f['t'] == MUTEX_T:
            mtx.append(f['name'])
        elif f['t'] == CV_T:
            cvs.append(f['name'])
        else:
            g.append(f['name'])
    return g, cvs, mtx


def is_lock_decl(s, mtx):
    """Decl statement constructing lock_guard / unique_lock on this->m_mutex; returns var id or None"""
    if s.get('k') != 'Decl':
        return None
    for v in s['vars']:
        if (v.get('rec') or '').startswith(LOCK_CLASSES) or v.get('t', '').startswith(LOCK_CLASSES):
            init = v.get('init')
            if isinstance(init, dict) and init.get('k') == 'Construct' and init.get('args'):
                p = member_path(init['args'][0])
                if p and p[-1] in mtx:
                    return v['id']
    return None


# ---------------------------------------------------------------------- K1 lockset
def K1(F, rep, R):
    """every access to a guarded member of a stage class happens with the class mutex held"""
    for cls in stage_classes(F, R):
        g, cvs, mtx = guarded_fields(F, cls)
        if not mtx:
            raise AnalysisBroken('stage class without a mutex: ' + cls)
        meths = methods_of(F, cls)
        # helper methods that never lock: allowed iff every in-class caller holds the lock at the call site
        unlocked_helpers = {}
        accesses = []   # (fn, field, line, held)
        calls_held = []  # (fn, callee simple, held, line)

        def lock_wrapper(callee):
            for c in F.functions.get(callee, []):
                body = c.get('body')
                stm = body.get('body', []) if isinstance(body, dict) and body.get('k') == 'Compound' else []
                pids = {p_['id'] for p_ in c.get('params', [])}
                li = [i for i, x in enumerate(stm) if isinstance(x, dict) and is_lock_decl(x, mtx) is not None]
                if not li or not pids:
                    continue
                after = [y for x in stm[li[0] + 1:] for y in walk(x) if y.get('k') == 'Call' and y.get('ck') == 'operator' and y.get('op') == '()' and y.get('args') and
                         (strip_all_casts(y['args'][0]) or {}).get('id') in pids]
                before = [y for x in stm[:li[0]] for y in walk(x) if y.get('k') == 'Call' and y.get('ck') == 'operator' and y.get('op') == '()']
                if after and not before:
                    return True
            return False

        def scan(fn):
            def rec(s, held, in_wait_lambda=False):
                if not isinstance(s, dict):
                    return held
                k = s.get('k')
                if k == 'Compound':
                    h = held
                    for c in s['body']:
                        if isinstance(c, dict) and is_lock_decl(c, mtx) is not None:
                            rec(c, h)
                            h = True
                        else:
                            h2 = rec(c, h)
                            # explicit unlock()/lock() on a unique_lock changes the state for the rest of the block
                            if h2 is not None:
                                h = h2
                    return None
                if k == 'Call' and s.get('fn') in ('unlock', 'lock') and (s.get('cls') or '').startswith('std::unique_lock'):
                    return s['fn'] == 'lock'
                if k == 'Call' and s.get('fn') == 'wait' and (s.get('cls') or '').startswith(CV_T):
                    # predicate runs with the lock re-acquired
                    for a in s.get('args', []):
                        rec(a, held)
                    rec(s.get('obj'), held)
                    return None
                if k == 'Member' and s.get('dk') == 'field' and s.get('name') in g:
                    b = strip_all_casts(s.get('base'))
                    if isinstance(b, dict) and b.get('k') == 'This':
                        accesses.append((fn, s['name'], s.get('l'), held))
                if k == 'Call' and s.get('ck') == 'member' and s.get('clsq') == cls:
                    o = strip_all_casts(s.get('obj'))
                    if isinstance(o, dict) and o.get('k') == 'This':
                        calls_held.append((fn, s['fn'], s.get('csig'), held, s.get('l')))
                        if not held and any(isinstance(a, dict) and [x for x in walk(a) if x.get('k') == 'Lambda'] for a in s.get('args', [])) and \
                                lock_wrapper(s.get('callee')):
                            # template <typename F> auto locked(F f) const { std::lock_guard<std::mutex> lock(m_mutex); return f(); }
                            # - the lambda handed to it runs with the mutex held
                            for a in s.get('args', []):
                                rec(a, True)
                            rec(s.get('obj'), held)
                            return None
                for c in children(s):
                    rec(c, held)
                return None
            rec(fn['body'], False)

        for fn in meths:
            rep.saw_function(fn['name'])
            scan(fn)
        locks_itself = {}
        for fn in meths:
            locks_itself[(fn['simple'], fn['sig'])] = any(isinstance(n, dict) and n.get('k') == 'Decl' and is_lock_decl(n, mtx) is not None
                                                         for n in walk(fn['body']))
        # helpers entered with the lock held: a method that does not lock itself and whose in-class call sites all hold the lock - either
        # syntactically or because the calling function is itself such a helper (helper calling helper); least fixed point
        entered_held = {}
        changed = True
        while changed:
            changed = False
            for fn in meths:
                key = (fn['simple'], fn['sig'])
                if entered_held.get(key) or locks_itself[key] or fn.get('access') != 2:
                    continue
                callers = [c for c in calls_held if c[1] == fn['simple'] and c[2] == fn['sig']]
                if callers and all(c[3] or entered_held.get((c[0]['simple'], c[0]['sig'])) for c in callers):
                    entered_held[key] = True
                    changed = True
        # private helpers whose callers are all constructors / destructors (or such helpers) run while no other thread can have the object
        exclusive = {}
        changed = True
        while changed:
            changed = False
            for fn in meths:
                key = (fn['simple'], fn['sig'])
                if exclusive.get(key) or locks_itself[key] or fn.get('access') != 2 or fn.get('kind') in ('ctor', 'dtor'):
                    continue
                callers = [c for c in calls_held if c[1] == fn['simple'] and c[2] == fn['sig']]
                if callers and all(c[0].get('kind') in ('ctor', 'dtor') or exclusive.get((c[0]['simple'], c[0]['sig'])) for c in callers):
                    exclusive[key] = True
                    changed = True
        for (fn, field, line, held) in accesses:
            if fn.get('kind') in ('ctor', 'dtor') or exclusive.get((fn['simple'], fn['sig'])) or fn.get('accessor'):
                continue    # (an accessor that only returns a reference to the member was replaced by the member at its call sites)
            rep.count('K1')
            ok = held
            why = 'with %s held' % mtx[0]
            if not held and not locks_itself[(fn['simple'], fn['sig'])]:
                callers = [c for c in calls_held if c[1] == fn['simple'] and c[2] == fn['sig']]
                if callers and all(c[3] or entered_held.get((c[0]['simple'], c[0]['sig'])) for c in callers):
                    ok = True
                    why = 'in a helper whose %d caller(s) all hold %s' % (len(callers), mtx[0])
            rep.ob('K1', '%s|%s' % (short(fn['name']), field), ok, rep.fn_site(fn, line),
                   '%s accesses %s %s' % (short(fn['name']), field, why if ok else 'WITHOUT holding ' + mtx[0]), nontrivial=True)
        # K4 part: a method holding the mutex must not call a method of the same object that locks it again
        for (fn, callee, csig, held, line) in calls_held:
            rep.count('K4')
            bad = held and locks_itself.get((callee, csig), False)
            rep.ob('K4', '%s|self:%s' % (short(fn['name']), callee), not bad, rep.fn_site(fn, line),
                   '%s calls %s() %s' % (short(fn['name']), callee, 'while holding the non-recursive mutex that the callee locks again'
                                         if bad else 'without a second acquisition of the same mutex'), nontrivial=held)


# ---------------------------------------------------------------------- K2 wait form
def wait_sites(F, R):
    """all condition_variable::wait calls in stage classes -> dicts"""
    out = []
    for cls in stage_classes(F, R):
        g, cvs, mtx = guarded_fields(F, cls)
        for fn in methods_of(F, cls):
            lockvars = {}
            for n in walk(fn['body']):
                if n.get('k') == 'Decl':
                    vid = is_lock_decl(n, mtx)
                    if vid is not None:
                        for v in n['vars']:
                            if v['id'] == vid:
                                lockvars[vid] = v
            for n in walk(fn['body']):
                if n.get('k') == 'Call' and n.get('fn') in ('wait', 'wait_for', 'wait_until') and (n.get('cls') or '').startswith(CV_T):
                    cv = member_path(n.get('obj'))
                    args = n.get('args', [])
                    lam = None
                    for a in args[1:]:
                        for x in walk(a):
                            if x.get('k') == 'Lambda':
                                lam = x
                                break
                    if lam is None:
                        # a named predicate:  const auto dataOrEnd = [&] { ... };  cv.wait(lock, dataOrEnd);
                        for a in args[1:]:
                            for x in walk(deep_resolve(a, fn)):
                                if x.get('k') == 'Lambda':
                                    lam = x
                                    break
                    lock_ok = False
                    a0 = strip_all_casts(args[0]) if args else None
                    if isinstance(a0, dict) and a0.get('k') == 'Ref' and a0.get('id') in lockvars:
                        lock_ok = lockvars[a0['id']]['t'].startswith('std::unique_lock')
                    fields = []
                    disj = []
                    expanded = []
                    if lam is not None:
                        rets = [x for x in walk(lam['body']) if x.get('k') == 'Return']
                        for rt in rets:
                            ex = expand_pred(rt.get('value'), F, cls, fn)
                            expanded.append(ex)
                            disj += split_or(ex)
                        for x in [y for ex in expanded for y in walk(ex)] + list(walk(lam['body'])):
                            if x.get('k') == 'Member' and x.get('dk') == 'field' and x.get('name') in g:
                                if x['name'] not in fields:
                                    fields.append(x['name'])
                    lockparm = None
                    if not lock_ok and isinstance(a0, dict) and a0.get('k') == 'Ref' and a0.get('dk') == 'parm' and 'std::unique_lock' in (a0.get('t') or ''):
                        lockparm = a0['id']
                    out.append({'cls': cls, 'fn': fn, 'cv': cv[-1] if cv else None, 'call': n, 'lambda': lam, 'lock_ok': lock_ok,
                                'fields': fields, 'disjuncts': disj, 'line': n.get('l'), 'variant': n.get('fn'), 'expanded': expanded,
                                'lockparm': lockparm})
    # a wait that sits in a private helper which is handed the caller's lock (void waitForFreeSpace(std::unique_lock<std::mutex> & lock)) is the
    # wait of every method that calls the helper: the rules talk about the public operations
    res = []
    for w in out:
        h = w['fn']
        if h.get('access') == 2 and w.get('lockparm') is not None:
            pidx = [i for i, p_ in enumerate(h.get('params', [])) if p_['id'] == w['lockparm']]
            moved = False
            for m in methods_of(F, w['cls']):
                if m is h:
                    continue
                g, cvs, mtx = guarded_fields(F, w['cls'])
                lockvars = {}
                for n in walk(m['body']):
                    if n.get('k') == 'Decl':
                        vid = is_lock_decl(n, mtx)
                        if vid is not None:
                            for v in n['vars']:
                                if v['id'] == vid:
                                    lockvars[vid] = v
                for n in walk(m['body']):
                    if n.get('k') == 'Call' and n.get('callee') == h['name'] and n.get('csig', h['sig']) == h['sig'] and pidx and len(n.get('args', [])) > pidx[0]:
                        a = strip_all_casts(n['args'][pidx[0]])
                        ok = isinstance(a, dict) and a.get('k') == 'Ref' and a.get('id') in lockvars and lockvars[a['id']]['t'].startswith('std::unique_lock')
                        w2 = dict(w)
                        w2.update({'fn': m, 'line': n.get('l'), 'lock_ok': ok, 'via_helper': h['name'], 'helper_call': n})
                        res.append(w2)
                        moved = True
            if moved:
                continue
        res.append(w)
    return res


def expand_pred(e, F, cls, fn, depth=0):
    """a wait predicate with single-assignment locals propagated and calls to helper methods of the same class replaced by
    the expression they return (one return statement, up to 3 levels)"""
    e = deep_resolve(e, fn)
    if not isinstance(e, dict) or depth > 3:
        return e
    if e.get('k') == 'Call' and e.get('ck') == 'member' and e.get('clsq') == cls and e.get('calleeInRoot') and e.get('args') and _FACTS[0] is not None:
        # bool admitsWrite(std::streamsize n) const { return ...; } - a helper with parameters, bound to what the call passes
        r = _inline_value_helper(e, fn, depth)
        if r is not None:
            return expand_pred(r, F, cls, fn, depth + 1)
    if e.get('k') == 'Call' and e.get('ck') == 'member' and e.get('clsq') == cls and e.get('calleeInRoot') and not e.get('args'):
        o = strip_all_casts(e.get('obj'))
        if isinstance(o, dict) and o.get('k') == 'This':
            cands = [f for f in F.functions.get(e['callee'], []) if f['sig'] == e.get('csig')]
            if len(cands) == 1:
                rets = [r for r in walk(cands[0]['body'], into_lambda=False) if r.get('k') == 'Return' and r.get('value') is not None]
                if len(rets) == 1:
                    inner = expand_pred(rets[0]['value'], F, cls, cands[0], depth + 1)
                    if cands[0].get('ret') and isinstance(inner, dict) and inner.get('t') != cands[0]['ret']:
                        inner = {'k': 'Cast', 'style': 'decl', 'cast': 'Conversion', 't': cands[0]['ret'], 'from': inner.get('t'), 'sub': inner, 'l': e.get('l')}
                    return inner
    out = {}
    for k, v in e.items():
        if isinstance(v, dict):
            out[k] = expand_pred(v, F, cls, fn, depth)
        elif isinstance(v, list):
            out[k] = [expand_pred(i, F, cls, fn, depth) if isinstance(i, dict) else i for i in v]
        else:
            out[k] = v
    return out


_NEGOP = {'<': '>=', '<=': '>', '>': '<=', '>=': '<', '==': '!=', '!=': '=='}


def split_or(e, neg=False):
    """the disjuncts of a predicate in negation normal form: !(a && b) is !a || !b, !(x >= y) is x < y, !!a is a"""
    e = strip(e)
    while isinstance(e, dict) and (e.get('k') in ('Cast', 'Paren')) and e.get('sub') is not None:
        e = strip(e['sub'])
    if isinstance(e, dict) and e.get('k') == 'Un' and e.get('op') == '!':
        return split_or(e['sub'], not neg)
    if isinstance(e, dict) and e.get('k') == 'Bin' and e.get('op') == ('&&' if neg else '||'):
        return split_or(e['lhs'], neg) + split_or(e['rhs'], neg)
    if not neg:
        return [e]
    return [_negated(e)]


def _negated(e):
    if isinstance(e, dict) and (e.get('k') == 'Bin' or (e.get('k') == 'Call' and e.get('ck') == 'operator' and len(e.get('args', [])) == 2)) and e.get('op') in _NEGOP:
        return dict(e, op=_NEGOP[e['op']])
    return {'k': 'Un', 'op': '!', 'sub': e, 't': 'bool', 'l': e.get('l') if isinstance(e, dict) else None}


def split_and(e, neg=False):
    """the conjuncts of a predicate in negation normal form: !(a || b) is !a && !b"""
    e = strip(e)
    while isinstance(e, dict) and (e.get('k') in ('Cast', 'Paren')) and e.get('sub') is not None:
        e = strip(e['sub'])
    if isinstance(e, dict) and e.get('k') == 'Un' and e.get('op') == '!':
        return split_and(e['sub'], not neg)
    if isinstance(e, dict) and e.get('k') == 'Bin' and e.get('op') == ('||' if neg else '&&'):
        return split_and(e['lhs'], neg) + split_and(e['rhs'], neg)
    return [_negated(e)] if neg else [e]


def cmp_parts(x):
    """(lhs, op, rhs) of a comparison, built-in or overloaded (std::fpos)"""
    x = strip_all_casts(x)
    if isinstance(x, dict) and x.get('k') == 'Bin' and x.get('op') in _NEGOP:
        return x['lhs'], x['op'], x['rhs']
    if isinstance(x, dict) and x.get('k') == 'Call' and x.get('ck') == 'operator' and x.get('op') in _NEGOP and len(x.get('args', [])) == 2:
        return x['args'][0], x['op'], x['args'][1]
    return None


def expr_str(e):
    e = strip_all_casts(e)
    if not isinstance(e, dict):
        return '?'
    k = e.get('k')
    if k == 'Member':
        return e['name']
    if k == 'Ref':
        return e['name']
    if k == 'Lit':
        return str(e.get('v'))
    if k == 'Bin':
        return '(%s %s %s)' % (expr_str(e['lhs']), e['op'], expr_str(e['rhs']))
    if k == 'Un':
        return '%s%s' % (e['op'], expr_str(e['sub']))
    if k == 'Call':
        o = expr_str(e['obj']) + '.' if e.get('obj') is not None and e.get('ck') == 'member' else ''
        if e.get('ck') == 'operator':
            return '(' + (' ' + e.get('op', '?') + ' ').join(expr_str(a) for a in e.get('args', [])) + ')'
        return '%s%s(%s)' % (o, e.get('fn'), ', '.join(expr_str(a) for a in e.get('args', [])))
    if k == 'This':
        return 'this'
    if k == 'Construct':
        return ', '.join(expr_str(a) for a in e.get('args', [])) or (e.get('cls') or 'T') + '()'
    return k


def expr_str_casts(e):
    """like expr_str but keeps explicit casts (they change signedness / width of a comparison)"""
    e = strip(e)
    if not isinstance(e, dict):
        return '?'
    k = e.get('k')
    if k == 'Cast' and e.get('style') != 'implicit':
        return '(%s)%s' % (e.get('t'), expr_str_casts(e['sub']))
    if k == 'Cast':
        return expr_str_casts(e['sub'])
    if k == 'Bin':
        return '(%s %s %s)' % (expr_str_casts(e['lhs']), e['op'], expr_str_casts(e['rhs']))
    if k == 'Un':
        return '%s%s' % (e['op'], expr_str_casts(e['sub']))
    if k == 'Call' and e.get('ck') == 'operator':
        return '(' + (' ' + e.get('op', '?') + ' ').join(expr_str_casts(a) for a in e.get('args', [])) + ')'
    return expr_str(e)


def K2s(F, rep, R, ws):
    """sibling waits: methods of one class that wait on the same condition variable for the same reason must use the same
    predicate (Engler's cross-check of siblings) - a cast or comparison that differs between them is a one-sided bug"""
    groups = {}
    for w in ws:
        groups.setdefault((w['cls'], w['cv'], w['fn']['simple']), []).append(w)
    for (cls, cv, simple), lst in sorted(groups.items()):
        if len(lst) < 2:
            continue
        rep.count('K2s')
        preds = {}
        for w in lst:
            preds.setdefault(' || '.join(sorted(expr_str_casts(d) for d in w['disjuncts'])), []).append(w)
        ok = len(preds) == 1
        rep.ob('K2s', '%s::%s|%s' % (short(cls), simple, cv), ok, rep.fn_site(lst[0]['fn'], lst[0]['line']),
               '%d overloads of %s::%s wait on %s with the same predicate' % (len(lst), short(cls), simple, cv) if ok else
               'overloads of %s::%s wait on %s with different predicates: %s - one of them is wrong' %
               (short(cls), simple, cv, '  vs  '.join('[%s] (line %s)' % (p_, v[0]['line']) for p_, v in preds.items())), nontrivial=True)


UNSIGNED = ('unsigned', 'size_t')


def K2u(F, rep, R, ws):
    """the fill level a producer waits on is position arithmetic that can be negative (the get position runs ahead of the put position
    when an object larger than the buffered data is skipped): it must not be converted to an unsigned type before the comparison"""
    for w in ws:
        diffs = []
        for ex in w.get('expanded', []):
            for x in walk(ex):
                if x.get('k') == 'Cast' and any(u in (x.get('t') or '') for u in UNSIGNED):
                    inner = [y for y in walk(x['sub']) if (y.get('k') == 'Bin' and y.get('op') == '-') or
                             (y.get('k') == 'Call' and y.get('ck') == 'operator' and y.get('op') == '-')]
                    names = {z.get('name') for y in inner for z in walk(y) if z.get('k') == 'Member'}
                    if inner and {'m_tellp', 'm_tellg'} <= names:
                        diffs.append(x)
        if not any(f in ('m_tellp',) for f in w['fields']) or not any(f == 'm_tellg' for f in w['fields']):
            continue
        if w['fn']['simple'] != 'write':
            continue
        rep.count('K2u')
        # with the request hand-off (T2, second shape) a wrapped fill level cannot block the producer for good: the waiting reader admits
        # it through the other disjunct.  The conversion then costs throughput, not progress - not a violation of any property here.
        ds = [expr_str(d) for d in w['disjuncts']]
        if len(ds) == 3 and re.match(r'^\((?:this\.)?m_tellp(?:\.operator long\(\))? < (?:this\.)?(m_\w+)\)$', ds[2]):
            rep.ob('K2u', '%s|%s|%s' % (short(w['fn']['name']), w['cv'], w['fn']['sig'][:40]), True, rep.fn_site(w['fn'], w['line']),
                   '%s: the producer is also admitted by a waiting reader (%s); the signedness of the fill-level comparison cannot block it for good%s'
                   % (short(w['fn']['name']), ds[2], ' (it IS compared unsigned here)' if diffs else ''), nontrivial=True)
            continue
        rep.ob('K2u', '%s|%s|%s' % (short(w['fn']['name']), w['cv'], w['fn']['sig'][:40]), not diffs, rep.fn_site(w['fn'], w['line']),
               '%s: the fill level m_tellp - m_tellg is compared as a signed quantity' % short(w['fn']['name']) if not diffs else
               '%s: the fill level m_tellp - m_tellg is converted to %s before it is compared with the capacity: when the get position is ahead '
               '(an unknown object larger than the buffered data was skipped) it wraps and the producer is never admitted again' %
               (short(w['fn']['name']), diffs[0].get('t')), nontrivial=True)['positive'] = True   # the conversion was *seen*: never 'undecided'


def K2(F, rep, R, classes=None):
    """every wait is the predicate overload on a unique_lock of the class mutex; the predicate has an abort disjunct"""
    ws = wait_sites(F, R)
    for w in ws:
        if classes and w['cls'] not in classes:
            continue
        rep.count('K2')
        fn = w['fn']
        abort_atoms = [d for d in w['disjuncts'] if isinstance(d, dict) and d.get('k') == 'Member' and 'abort' in d.get('name', '').lower()]
        ok = w['lambda'] is not None and w['lock_ok'] and bool(abort_atoms) and w['variant'] == 'wait'
        why = []
        if w['variant'] != 'wait':
            why.append('%s: a timeout is treated like a wake-up, the code behind the wait runs although the predicate is false' % w['variant'])
        if w['lambda'] is None:
            why.append('no predicate (a bare wait can miss the wake-up or wake spuriously)')
        if not w['lock_ok']:
            why.append('first argument is not a unique_lock on the class mutex')
        if not abort_atoms:
            why.append('predicate has no abort disjunct: abort() cannot release this waiter')
        rep.ob('K2', '%s|%s' % (short(fn['name']), w['cv']), ok, rep.fn_site(fn, w['line']),
               '%s waits on %s with predicate [%s]%s' % (short(fn['name']), w['cv'], ' || '.join(expr_str(d) for d in w['disjuncts']),
                                                         '' if ok else ' - ' + '; '.join(why)), nontrivial=True)
        # K2a: every disjunct is a bare atom.  The release analysis (K3/K6: "setFileSize / abort / a read releases this waiter") reads the
        # disjuncts as sufficient conditions; a conjunct inside one (`m_fileSize != 0 && m_tellg >= m_fileSize`) takes part of the value
        # space out of the release - a declared size of 0, the empty stream, then never ends the wait
        rep.count('K2a')
        conj = []
        for d in w['disjuncts']:
            x = strip_all_casts(d)
            while isinstance(x, dict) and x.get('k') == 'Paren':
                x = strip_all_casts(x.get('sub'))
            if isinstance(x, dict) and x.get('k') == 'Bin' and x.get('op') == '&&':
                conj.append(expr_str(d))
        rep.ob('K2a', '%s|%s' % (short(fn['name']), w['cv']), not conj, rep.fn_site(fn, w['line']),
               '%s: the wait predicate on %s is a disjunction of bare conditions' % (short(fn['name']), w['cv']) if not conj else
               '%s: the disjunct [%s] of the wait predicate on %s is a conjunction: the event that is meant to end the wait ends it only for part of the '
               'values (for instance never for a declared size of 0)' % (short(fn['name']), conj[0], w['cv']), nontrivial=True)
    return ws


# ---------------------------------------------------------------------- writes of fields inside a method, per path
def field_write_events(evs, fields, helper_writes=None):
    """indices of events that modify one of the given members of *this* (directly, or inside a helper method of the same
    object whose transitive write set is given in helper_writes: callee name -> set of members)"""
    out = []
    for i, e in enumerate(evs):
        n = e.get('n')
        if helper_writes and e['ev'] == 'call' and n.get('ck') == 'member' and n.get('callee') in helper_writes:
            o = strip_all_casts(n.get('obj'))
            if isinstance(o, dict) and o.get('k') == 'This':
                for f in sorted(helper_writes[n['callee']] & set(fields)):
                    out.append((i, f))
        if e['ev'] == 'assign':
            tgt = None
            if n.get('k') == 'Bin':
                tgt = n['lhs']
            elif n.get('k') == 'Un':
                tgt = n['sub']
            elif n.get('k') == 'Call':
                tgt = n['args'][0] if n.get('args') else None
            p = member_path(tgt) if tgt is not None else None
            if p and len(p) == 1 and p[0] in fields:
                out.append((i, p[0]))
        elif e['ev'] == 'call' and n.get('ck') == 'member' and n.get('fn') in MUTATING:
            p = member_path(n.get('obj'))
            if p and len(p) == 1 and p[0] in fields:
                out.append((i, p[0]))
    return out


def notify_events(evs, cv):
    return [i for i, e in enumerate(evs) if e['ev'] == 'call' and e['n'].get('fn') in ('notify_all',) and
            (member_path(e['n'].get('obj')) or (None,))[-1] == cv]


def K3(F, rep, R, FL, ws, classes=None):
    """notify completeness, role-aware"""
    for w in ws:
        cls = w['cls']
        if classes and cls not in classes:
            continue
        A = w['fn']
        cv = w['cv']
        stages = [s for s, c in R.stages.items() if c == cls]
        # transitive write sets of the class's methods (a private helper that moves a position counts for its callers)
        g_all, _, _ = guarded_fields(F, cls)
        hw = {}
        meths = methods_of(F, cls)
        for m_ in meths:
            hw[m_['name']] = {f for f in g_all if writes_fields(m_, {f})}
        changed = True
        while changed:
            changed = False
            for m_ in meths:
                for n_ in walk(m_['body'], into_lambda=False):
                    if n_.get('k') == 'Call' and n_.get('ck') == 'member' and n_.get('callee') in hw and n_.get('callee') != m_['name']:
                        o_ = strip_all_casts(n_.get('obj'))
                        if isinstance(o_, dict) and o_.get('k') == 'This' and not hw[n_['callee']] <= hw[m_['name']]:
                            hw[m_['name']] |= hw[n_['callee']]
                            changed = True
        for B in methods_of(F, cls):
            if B.get('kind') in ('ctor', 'dtor'):
                continue
            paths = FL.paths(B, follow=())
            rep.analysed['paths'] += len(paths)
            writes_any = False
            bad = None
            for evs, out in paths:
                we = field_write_events(evs, set(w['fields']), hw)
                if not we:
                    continue
                writes_any = True
                ne = notify_events(evs, cv)
                for (i, f) in we:
                    if not any(j > i for j in ne):
                        bad = (f, evs[i].get('l'), evs)
                        break
                if bad:
                    break
            if not writes_any:
                continue
            rep.count('K3')
            # role-awareness: does B ever run concurrently in a different thread than A on the same stage instance?
            needs = False
            witness = None
            for st in stages:
                ra = R.role_sets(st, A['name'])
                rb = R.role_sets(st, B['name'])
                for (r1, m1, p1) in ra:
                    for (r2, m2, p2) in rb:
                        if p2 != 'concurrent' or p1 != 'concurrent':
                            continue
                        if not (m1 == m2 or 'any' in (m1, m2)):
                            continue
                        if r1 != r2:
                            needs = True
                            witness = (st, r1, r2, m2)
            ok = (bad is None) or not needs
            if bad is None:
                what = '%s writes %s and notifies %s afterwards on every path' % (short(B['name']), '/'.join(w['fields']), cv)
            elif not needs:
                what = ('%s writes %s without notifying %s, but never runs concurrently with the waiter %s in another thread '
                        '(roles: %s)' % (short(B['name']), bad[0], cv, short(A['name']),
                                         sorted({(r, m, p) for st in stages for (r, m, p) in R.role_sets(st, B['name'])}) or 'not called through the File API'))
            else:
                what = ('%s writes %s (line %s) and does not call %s.notify_all() afterwards; %s may be blocked in %s on %s.%s in mode %s '
                        '- lost wake-up' % (short(B['name']), bad[0], bad[1], cv, witness[1], short(A['name']), witness[0], cv, witness[3]))
            rep.ob('K3', '%s|%s|waiter:%s' % (short(B['name']), cv, A['simple']), ok, rep.fn_site(B, bad[1] if bad else None), what,
                   nontrivial=True)


# ---------------------------------------------------------------------- K4 lock order between classes
def K4(F, rep, R, FL):
    """lock-order graph over the stage mutexes: an edge M1->M2 when a function holding M1 (transitively) calls one locking M2"""
    classes = stage_classes(F, R)
    locks_direct = {}
    for cls in classes:
        g, cvs, mtx = guarded_fields(F, cls)
        for fn in methods_of(F, cls):
            if any(isinstance(n, dict) and n.get('k') == 'Decl' and is_lock_decl(n, mtx) is not None for n in walk(fn['body'])):
                locks_direct[(fn['name'], fn['sig'])] = cls
    # transitive: which stage mutexes may a function acquire
    allf = [f for fns in F.functions.values() for f in fns]
    acq = {(f['name'], f['sig']): set() for f in allf}
    for k, c in locks_direct.items():
        acq[k].add(c)
    changed = True
    while changed:
        changed = False
        for f in allf:
            k = (f['name'], f['sig'])
            for n in walk(f['body']):
                if n.get('k') in ('Call', 'Construct') and n.get('calleeInRoot'):
                    for c in FL.resolve(n):
                        s = acq.get((c['name'], c['sig']), set())
                        if not s <= acq[k]:
                            acq[k] |= s
                            changed = True
    edges = {}
    for cls in classes:
        g, cvs, mtx = guarded_fields(F, cls)
        for fn in methods_of(F, cls):
            if (fn['name'], fn['sig']) not in locks_direct:
                continue
            # calls made after the lock declaration
            held = False
            for n in walk(fn['body']):
                if n.get('k') == 'Decl' and is_lock_decl(n, mtx) is not None:
                    held = True
                    continue
                if held and n.get('k') in ('Call', 'Construct') and n.get('calleeInRoot'):
                    for c in FL.resolve(n):
                        for m2 in acq.get((c['name'], c['sig']), set()):
                            if c.get('class') == cls and m2 == cls:
                                continue   # same-object re-acquisition is K4|self (reported in K1 pass)
                            edges.setdefault((cls, m2), []).append((fn, n.get('l'), c['name']))
    rep.count('K4', len(classes))
    # cycle detection
    graph = {}
    for (a, b) in edges:
        graph.setdefault(a, set()).add(b)

    def reach(a, b, seen):
        if a == b:
            return True
        seen.add(a)
        return any(reach(x, b, seen) for x in graph.get(a, ()) if x not in seen)
    cyc = [(a, b) for (a, b) in edges if reach(b, a, set())]
    rep.ob('K4', 'lock-order', not cyc, None,
           'lock-order graph over %d stage mutexes has %d edge(s)%s' % (len(classes), len(edges),
                                                                        '' if not cyc else '; cycle through ' + ', '.join('%s->%s (%s line %s)' % (short(a), short(b), short(edges[(a, b)][0][0]['name']), edges[(a, b)][0][1]) for a, b in cyc)),
           nontrivial=True)


# ---------------------------------------------------------------------- producers / K5 / K8 / K10
def produced_stages(R, role, mode):
    """stage instances a role produces into: it calls a put-side method (write/push) on them"""
    out = set()
    for c in R.calls:
        if c['role'] == role and (c['mode'] == mode or c['mode'] == 'any') and c['method'] in ('write',) and c['phase'] == 'concurrent':
            out.add(c['stage'])
    return out


def K5(F, rep, R, FL, follow, tag):
    """end-of-stream on every worker exit (parametrised by the exceptional effects followed)"""
    for q, t in sorted(R.threads.items()):
        role = 'T:' + q.split('::')[-1]
        fn = F.fn(q)
        rep.saw_function(q)
        for st in sorted(produced_stages(R, role, t['mode'])):
            cls = R.stages[st]
            if not F.method(cls, 'setFileSize'):
                continue   # the compressed file has no consumer waiting for an end mark
            rep.count('K5')
            paths = FL.paths(fn, follow=follow)
            rep.analysed['paths'] += len(paths)
            bad = None
            for evs, out in paths:
                has = any(e['ev'] == 'call' and e['n'].get('fn') == 'setFileSize' and field_root(member_path(e['n'].get('obj'))) == st for e in evs)
                if not has:
                    bad = (evs, out)
                    break
            exits = ''
            key = 'ok'
            if bad:
                catches = [e for e in bad[0] if e['ev'] == 'catch']
                key = 'handler:catch(%s)' % catches[-1]['type'].replace('Vector::BLF::', '') if catches else 'exit:' + str(bad[1])
                exits = fmt_events(bad[0], limit=16)
            rep.ob('K5', '%s|%s|%s' % (short(q), st, key if bad else tag), bad is None, rep.fn_site(fn),
                   ('%s (producer of %s in %s mode) declares end of stream via %s.setFileSize() on all %d paths [%s edges]' %
                    (short(q), st, t['mode'], st, len(paths), tag)) if bad is None else
                   ('%s can leave without %s.setFileSize(): %s - the consumer of %s blocks forever' % (short(q), st, exits, st)),
                   nontrivial=True)


def K10(F, rep, R, FL):
    """no exception leaves a thread body"""
    for q in sorted(R.threads):
        fn = F.fn(q)
        rep.count('K10')
        paths = FL.paths(fn)
        bad = [(evs, out) for evs, out in paths if isinstance(out, tuple)]
        rep.ob('K10', short(q), not bad, rep.fn_site(fn),
               '%s: %d paths, none leaves by exception' % (short(q), len(paths)) if not bad else
               '%s: an exception (%s) can escape the thread body -> std::terminate: %s' % (short(q), bad[0][1][1], fmt_events(bad[0][0], limit=14)),
               nontrivial=True)


def K8(F, rep, R, FL):
    """no transfer into the produced stage after its end-of-stream was declared"""
    for q, t in sorted(R.threads.items()):
        role = 'T:' + q.split('::')[-1]
        fn = F.fn(q)
        for st in sorted(produced_stages(R, role, t['mode'])):
            if not F.method(R.stages[st], 'setFileSize'):
                continue
            rep.count('K8')
            # functions (called from the entry) through which the role writes into st
            transfer_fns = set()
            for c in R.calls:
                if c['role'] == role and c['stage'] == st and c['method'] == 'write':
                    transfer_fns |= set(c['chain'])
            transfer_fns.discard(q)
            bad = None
            for evs, out in FL.paths(fn, follow=()):
                seen_eos = False
                for e in evs:
                    if e['ev'] != 'call':
                        continue
                    n = e['n']
                    if n.get('fn') == 'setFileSize' and field_root(member_path(n.get('obj'))) == st:
                        seen_eos = True
                    elif seen_eos and ((n.get('callee') in transfer_fns) or (n.get('fn') == 'write' and field_root(member_path(n.get('obj'))) == st)):
                        bad = (e.get('l'), evs)
                        break
                if bad:
                    break
            rep.ob('K8', '%s|%s' % (short(q), st), bad is None, rep.fn_site(fn, bad[0] if bad else None),
                   '%s: no transfer into %s is reachable after %s.setFileSize()' % (short(q), st, st) if not bad else
                   '%s: transfers into %s (line %s) after end of stream was declared: %s' % (short(q), st, bad[0], fmt_events(bad[1])), nontrivial=True)


# ---------------------------------------------------------------------- K6 release before join
def thread_waits(F, R, ws, role, mode):
    """wait sites reachable from a role: set of (stage, side)"""
    out = set()
    for w in ws:
        for st, cls in R.stages.items():
            if cls != w['cls']:
                continue
            for (r, m, p) in R.role_sets(st, w['fn']['name']):
                if r == role and (m == mode or m == 'any'):
                    side = 'space' if w['fn']['simple'] == 'write' else 'data'
                    out.add((st, side))
    return out


def loop_flag(F, entry):
    """atomic File member read in the worker's loop condition"""
    for n in walk(entry['body']):
        if n.get('k') == 'While':
            for m in walk(n['cond']):
                if m.get('k') == 'Member' and m.get('dk') == 'field':
                    return m['name']
    return None


def K6(F, rep, R, FL, ws):
    close = R.close_fn
    paths = FL.paths(close, follow=())
    rep.analysed['paths'] += len(paths)
    by_member = {}
    for q, t in R.threads.items():
        by_member.setdefault((t['member'], t['mode']), q)
    results = {}
    for evs, out in paths:
        taken = [R._mode_of_cond(e['n']) for e in evs if e['ev'] == 'branch' and e['taken'] and R._mode_of_cond(e['n'])]
        if len(set(taken)) != 1:
            continue
        mode = taken[0]
        joined_before = set()
        for i, e in enumerate(evs):
            if e['ev'] != 'call' or e['n'].get('callee') != 'std::thread::join':
                continue
            member = field_root(member_path(e['n'].get('obj')))
            q = by_member.get((member, mode))
            if q is None:
                continue
            pre = evs[:i]

            def aborted(st):
                return any(x['ev'] == 'call' and x['n'].get('fn') == 'abort' and field_root(member_path(x['n'].get('obj'))) == st for x in pre)

            def eos_by_close(st):
                return any(x['ev'] == 'call' and x['n'].get('fn') == 'setFileSize' and field_root(member_path(x['n'].get('obj'))) == st for x in pre)

            def flag_cleared(qq):
                fl = loop_flag(F, F.fn(qq))
                for x in pre:
                    if x['ev'] in ('assign', 'call') and x['n'].get('k') == 'Call' and x['n'].get('op') == '=' and x['n'].get('args'):
                        p = member_path(x['n']['args'][0])
                        if p and p[-1] == fl:
                            return True
                return False

            def producer_thread(st):
                for qq, tt in R.threads.items():
                    if tt['mode'] == mode and st in produced_stages(R, 'T:' + qq.split('::')[-1], mode):
                        return qq
                return None

            def consumer_thread(st):
                for qq, tt in R.threads.items():
                    if tt['mode'] != mode:
                        continue
                    role = 'T:' + qq.split('::')[-1]
                    if any(c['role'] == role and c['stage'] == st and c['method'] == 'read' and c['phase'] == 'concurrent' for c in R.calls):
                        return qq
                return None

            def k5_holds(qq, st):
                fnq = F.fn(qq)
                for evs2, _ in FL.paths(fnq, follow=('BLF',)):
                    if not any(x['ev'] == 'call' and x['n'].get('fn') == 'setFileSize' and field_root(member_path(x['n'].get('obj'))) == st for x in evs2):
                        return False
                return True

            def released(st, side, stack):
                if aborted(st):
                    return True, 'abort() on %s' % st
                if (st, side) in stack:
                    return False, 'cyclic dependency'
                stack = stack | {(st, side)}
                if side == 'data':
                    if eos_by_close(st):
                        return True, 'close() declares end of stream on %s' % st
                    p = producer_thread(st)
                    if p and k5_holds(p, st):
                        oks = [released(s2, d2, stack) for (s2, d2) in thread_waits(F, R, ws, 'T:' + p.split('::')[-1], mode) if (s2, d2) != (st, 'space')]
                        # the producer's own space-wait on st is released by the very consumer we are asking about once it runs
                        if all(o[0] for o in oks):
                            return True, 'producer %s ends and declares end of stream' % short(p)
                        return False, 'producer %s may itself stay blocked (%s)' % (short(p), '; '.join(o[1] for o in oks if not o[0]))
                    return False, 'nobody declares end of stream on %s and it is not aborted' % st
                else:
                    c = consumer_thread(st)
                    if c is None:
                        return False, 'the consumer of %s is the application thread, which is inside close()' % st
                    cm = R.threads[c]['member']
                    if cm in joined_before:
                        return False, 'consumer %s has already been joined' % short(c)
                    if flag_cleared(c):
                        return False, 'consumer %s was told to stop (its running flag is cleared) and %s is not aborted' % (short(c), st)
                    oks = [released(s2, d2, stack) for (s2, d2) in thread_waits(F, R, ws, 'T:' + c.split('::')[-1], mode) if (s2, d2) != (st, 'data')]
                    if all(o[0] for o in oks):
                        return True, 'consumer %s keeps draining %s' % (short(c), st)
                    return False, 'consumer %s may itself stay blocked (%s)' % (short(c), '; '.join(o[1] for o in oks if not o[0]))

            role = 'T:' + q.split('::')[-1]
            for (st, side) in sorted(thread_waits(F, R, ws, role, mode)):
                ok, why = released(st, side, frozenset())
                key = '%s|%s|%s-wait:%s' % (mode, short(q), side, st)
                prev = results.get(key)
                if prev is None or (prev[0] and not ok):
                    results[key] = (ok, why, e.get('l'))
            joined_before.add(member)
    if not results:
        raise AnalysisBroken('K6 found no join in File::close')
    for key, (ok, why, line) in sorted(results.items()):
        rep.count('K6')
        mode, q, w = key.split('|')
        rep.ob('K6', key, ok, rep.fn_site(close, line),
               'close() [%s mode] joins %s: its %s is released (%s)' % (mode, q, w, why) if ok else
               'close() [%s mode] joins %s (line %s) while its %s may never be released: %s - close() hangs' % (mode, q, line, w, why), nontrivial=True)


# ---------------------------------------------------------------------- K7 SPSC
def writes_fields(fn, fields):
    for n in walk(fn['body']):
        if n.get('k') == 'Bin' and n.get('op') in ('=', '+=', '-='):
            p = member_path(n['lhs'])
            if p and len(p) == 1 and p[0] in fields:
                return True
        if n.get('k') == 'Un' and n.get('op') in ('++', '--'):
            p = member_path(n['sub'])
            if p and len(p) == 1 and p[0] in fields:
                return True
        if n.get('k') == 'Call' and n.get('ck') == 'operator' and n.get('op') in ('=', '+=', '-=', '++', '--') and n.get('args'):
            p = member_path(n['args'][0])
            if p and len(p) == 1 and p[0] in fields:
                return True
        if n.get('k') == 'Call' and n.get('ck') == 'member' and n.get('fn') in MUTATING:
            p = member_path(n.get('obj'))
            if p and len(p) == 1 and p[0] in fields:
                return True
    return False


def K7(F, rep, R, ws):
    """single producer / single consumer per stage and mode: the side of a method is read off the condition
    variable it notifies (consumer side notifies what the producer waits on and vice versa)"""
    for cls in stage_classes(F, R):
        g, cvs, mtx = guarded_fields(F, cls)
        if len(cvs) < 2:
            continue
        # which cv does each side wait on
        waits_on = {}
        for w in ws:
            if w['cls'] == cls:
                waits_on.setdefault(w['cv'], set()).add(w['fn']['simple'])
        side_of = {}
        waiting_methods = {w['fn']['simple'] for w in ws if w['cls'] == cls}
        pred_fields = {f for w in ws if w['cls'] == cls for f in w['fields']}
        transfer_fields = set()
        for fn in methods_of(F, cls):
            if fn['simple'] in waiting_methods:
                transfer_fields |= {f for f in pred_fields if writes_fields(fn, {f})}
        # the cv a consumer-side method notifies is the one the producers (methods that insert into storage) wait on
        consumer_cv = producer_cv = None
        for w in ws:
            if w['cls'] != cls:
                continue
            ins = any(n.get('k') == 'Call' and n.get('fn') in ('push', 'push_back', 'emplace_back') for n in flat_nodes(F, w['fn']))
            if ins:
                consumer_cv = w['cv']
            else:
                producer_cv = w['cv']
        for fn in methods_of(F, cls):
            if fn.get('kind') in ('ctor', 'dtor'):
                continue
            notified = set()
            for n in walk(fn['body']):
                if n.get('k') == 'Call' and n.get('fn') == 'notify_all':
                    p = member_path(n.get('obj'))
                    if p:
                        notified.add(p[-1])
            # a method is on a side only if it changes transfer state, i.e. a predicate field that the waiting
            # (transferring) methods themselves write; pure configuration setters (capacity) and abort are on no side
            sides = set()
            if len(notified) == 1 and (fn['simple'] in waiting_methods or writes_fields(fn, transfer_fields)):
                sides.add(next(iter(notified)))
            # releasing / appending storage is a consumer / producer action whoever is notified (dropOldData notifies nobody;
            # a producer method that also releases containers acts on both sides)
            pops = any(n.get('k') == 'Call' and n.get('fn') in ('pop', 'pop_front', 'pop_back', 'erase') and
                       (member_path(n.get('obj')) or (None,))[-1] in g for n in flat_nodes(F, fn))
            pushes = any(n.get('k') == 'Call' and n.get('fn') in ('push', 'push_back', 'emplace_back') and
                         (member_path(n.get('obj')) or (None,))[-1] in g for n in flat_nodes(F, fn))
            if pops and consumer_cv:
                sides.add(consumer_cv)
            if pushes and producer_cv:
                sides.add(producer_cv)
            if sides:
                side_of[(fn['name'], fn['sig'])] = sides
        for st, c in R.stages.items():
            if c != cls:
                continue
            for mode in ('read', 'write'):
                for cv in cvs:
                    rep.count('K7')
                    roles = {}
                    for call in R.calls:
                        if call['stage'] != st or call['phase'] != 'concurrent':
                            continue
                        if not (call['mode'] == mode or call['mode'] == 'any'):
                            continue
                        if cv in side_of.get((call['callee'], call['sig']), ()):
                            roles.setdefault(call['role'], set()).add(call['method'])
                    ok = len(roles) <= 1
                    rep.ob('K7', '%s|%s|%s' % (st, mode, cv), ok, None,
                           '%s in %s mode: methods acting on the %s side (%s) are called concurrently by %s' %
                           (st, mode, cv, ', '.join(sorted({m for v in roles.values() for m in v})) or 'none',
                            ('exactly one role: ' + ', '.join(roles)) if ok and roles else ('no role' if not roles else
                             'MORE THAN ONE role: ' + ', '.join('%s{%s}' % (r, ','.join(sorted(m))) for r, m in sorted(roles.items())))),
                           nontrivial=bool(roles))


# ---------------------------------------------------------------------- T2 conditional deadlock-freedom lemma
def T2(F, rep, R, FL, ws):
    """if producer predicate is  abort || fill < B  and consumer predicate  abort || n+tellg <= tellp || eof,  both are
    blocked iff B <= fill < n: every blocking request n must be provably <= B"""
    st = 'm_uncompressedFile'
    cls = R.stages.get(st)
    if cls is None:
        raise AnalysisBroken('stage m_uncompressedFile vanished')
    wr = [w for w in ws if w['cls'] == cls and w['fn']['simple'] == 'write']
    rd = [w for w in ws if w['cls'] == cls and w['fn']['simple'] == 'read']
    shape_ok = bool(wr) and bool(rd)
    handoff = None     # shape B: the field through which a waiting reader admits the writer
    bad_admission = None
    # the fields read() publishes before it waits: candidates for the hand-off
    published = set()
    for w in rd:
        for x in walk(w['fn']['body'], into_lambda=False):
            if x.get('k') == 'Bin' and x.get('op') == '=':
                t_ = strip_all_casts(x['lhs'])
                if isinstance(t_, dict) and t_.get('k') == 'Member' and t_.get('name') not in ('m_tellg', 'm_gcount', 'm_rdstate'):
                    published.add(t_['name'])
    for w in wr:
        kinds = []
        for d in w['disjuncts']:
            sx = expr_str(d).replace('this.', '')
            m = re.match(r'^\(m_tellp(?:\.operator long\(\))? < (m_\w+)\)$', sx)
            if sx in ('m_abort', '(m_abort)'):
                kinds.append(('abort', None))
            elif 'm_bufferSize' in sx and '<' in sx and 'm_tellp' in sx and 'm_tellg' in sx:
                kinds.append(('fill', None))
            elif m and m.group(1) != 'm_bufferSize':
                kinds.append(('handoff', m.group(1)))
            else:
                kinds.append(('other', sx))
        names = [k_ for k_, _ in kinds]
        hs = [v_ for k_, v_ in kinds if k_ == 'handoff']
        others = [v_ for k_, v_ in kinds if k_ == 'other']
        if not ('abort' in names and 'fill' in names) or len(hs) > 1:
            shape_ok = False
        elif others:
            pub = [o_ for o_ in others if any(re.search(r'\b%s\b' % re.escape(f_), o_) for f_ in published)]
            if pub:
                bad_admission = (w, pub[0])
            else:
                shape_ok = False
        elif hs:
            if handoff in (None, hs[0]):
                handoff = hs[0]
            else:
                shape_ok = False
        elif handoff:
            handoff = False     # one overload has the extra disjunct, the other not (K2s reports that)
    for w in rd:
        s = [expr_str(d) for d in w['disjuncts']]
        if not (len(s) == 3 and any('m_abort' in x for x in s) and any('m_tellp' in x for x in s) and any('m_fileSize' in x for x in s)):
            shape_ok = False
    if bad_admission:
        # the reader publishes the end of its request; a writer must be admitted as long as the put position is below it.  Any stricter
        # test (the whole piece has to fit below the request end) leaves a state in which the buffer is full, the reader waits for the
        # bytes of the piece that straddles its request end, and the writer waits for space that only the reader can free
        rep.count('T2')
        w = bad_admission[0]
        o = rep.ob('T2', 'write|admission-below-request', False, rep.fn_site(w['fn'], w['line']),
                   '%s is admitted beyond the buffer size on [%s] instead of "put position below the end the waiting reader asked for": a piece that does not end '
                   'at or before that end is not admitted although the reader waits for its first bytes - both sides wait' % (short(w['fn']['name']), bad_admission[1][:160]),
                   nontrivial=True)
        if isinstance(o, dict):
            o['positive'] = True
        return
    if not shape_ok or handoff is False:
        rep.notes.append('T2: wait predicates of the stream do not have the premised shape - clause undecided')
        return
    if handoff:
        return T2_handoff(F, rep, R, FL, ws, st, cls, wr, rd, handoff)
    # B: what File::File configures
    ctor = [f for f in F.functions.get(FILE + '::File', []) if f.get('kind') == 'ctor']
    bsrc = None
    for f in ctor:
        for n in walk(f['body']):
            if n.get('k') == 'Call' and n.get('fn') == 'setBufferSize' and field_root(member_path(n.get('obj'))) == st:
                bsrc = expr_str(deep_resolve(n['args'][0], f))
    # requests: calls of AbstractFile::read bound to the stream, per mode
    for mode in ('read', 'write'):
        rep.count('T2')
        reqs = [c for c in R.calls if c['stage'] == st and c['method'] == 'read' and c['phase'] == 'concurrent' and c['mode'] == mode]
        unbounded = []
        nconst = 0
        for c in reqs:
            fn = None
            for f in F.functions.get(c['caller'], []):
                fn = f
            if fn is None:
                continue
            for n in walk(fn['body']):
                if n.get('k') == 'Call' and n.get('fn') == 'read' and n.get('l') == c['line'] and len(n.get('args', [])) == 2:
                    a = strip(resolve_alias(n['args'][1], fn))
                    if bounded_expr(F, a):
                        nconst += 1
                    else:
                        unbounded.append('%s:%s n=%s' % (short(c['caller']), c['line'], expr_str(a)))
        unbounded = sorted(set(unbounded))
        tracked = ''
        if unbounded and all('n=m_uncompressedFile.defaultLogContainerSize()' in u for u in unbounded):
            inv, why = buffer_tracks_container(F, FL, st)
            if inv:
                # the request in flight was sized with the *previous* container size: a setter that can run during a session must not
                # shrink the buffer below it
                for f2 in methods_of(F, FILE):
                    if f2.get('kind') == 'ctor':
                        continue
                    for n2 in walk(f2['body']):
                        if n2.get('k') == 'Call' and n2.get('fn') == 'setBufferSize' and field_root(member_path(n2.get('obj')) or ()) == st and \
                                'max(' not in expr_str(deep_resolve(n2['args'][0], f2)):
                            inv, why = False, ('%s can shrink the buffer during a session (setBufferSize(%s)) while the compression thread is still '
                                               'waiting for a container of the previous, larger size' % (short(f2['name']), expr_str(n2['args'][0])))
            if inv:
                tracked = '; the only non-constant request is the container size, and bufferSize tracks it (%s)' % why
                nconst += len(unbounded)
                unbounded = []
            else:
                tracked = '; bufferSize does not track the container size: ' + why
        ok = not unbounded
        rep.ob('T2', '%s|%s' % (st, mode), ok, rep.fn_site(ctor[0]) if ctor else None,
               ('%s, %s mode: producer and consumer are both blocked iff bufferSize <= fill < n; bufferSize := %s; %d request sites '
                'have constant n, %d have a request size that is not provably <= bufferSize (e.g. %s)%s') %
               (st, mode, bsrc, nconst, len(unbounded), '; '.join(unbounded[:3]), tracked if ok else tracked + ' - a valid session with such a request deadlocks'),
               detail={'unbounded_sites': unbounded[:80]}, nontrivial=True)


def T2_handoff(F, rep, R, FL, ws, st, cls, wr, rd, X):
    """shape B: the writer is admitted by  abort || fill < B || m_tellp < X ; the reader publishes X := n + m_tellg under the lock and
    wakes the writers before it waits for  n + m_tellg <= m_tellp.  Then 'reader blocked' implies m_tellp < n + m_tellg = X, so the
    writer is admitted: for no request size and no buffer size are both sides blocked."""
    problems = []
    wcvs = {w['cv'] for w in wr}
    for w in rd:
        fn = w['fn']
        datom = [expr_str(d) for d in w['disjuncts']][1]
        m = re.match(r'^\((.*) <= (?:this\.)?m_tellp(?:\.operator long\(\))?\)$', datom)
        want = _normx(m.group(1)) if m else None
        if want is None:
            problems.append('the data atom of %s is not  E <= m_tellp  (%s)' % (short(fn['name']), datom))
            continue
        npaths = 0
        for evs, out in FL.paths(fn, follow=(), unroll=1):
            wi = [i for i, e in enumerate(evs) if e['ev'] == 'call' and e['n'] is w['call']]
            if not wi:
                continue
            npaths += 1
            pre = evs[:wi[0]]
            asg = [(i, e) for i, e in enumerate(pre) if e['ev'] == 'assign' and _assigned_field(e['n']) == X]
            if not asg:
                problems.append('%s waits for data without publishing its request in %s' % (short(fn['name']), X))
                break
            i, e = asg[-1]
            n_ = e['n']
            rhs = n_.get('rhs') if n_.get('k') == 'Bin' else (n_['args'][1] if len(n_.get('args', [])) == 2 else None)
            got = _normx(expr_str(deep_resolve(rhs, fn))) if rhs is not None and n_.get('op') == '=' else None
            if got != want:
                problems.append('%s publishes %s := %s but waits for %s <= m_tellp: a blocked reader does not imply an admitted writer' % (short(fn['name']), X, got, want))
                break
            if not any(e2['ev'] == 'call' and e2['n'].get('fn') in ('notify_all',) and (member_path(e2['n'].get('obj')) or (None,))[-1] in wcvs for e2 in pre[i:]):
                problems.append('%s publishes its request in %s without waking the writers (%s) before it waits' % (short(fn['name']), X, '/'.join(sorted(wcvs))))
                break
        if npaths == 0:
            problems.append('no path of %s reaches its wait' % short(fn['name']))
    # nobody but the reader changes X
    for fn in methods_of(F, cls):
        if fn['simple'] in ('read',):
            continue
        for n in walk(fn['body']):
            if n.get('k') in ('Bin', 'Call', 'Un') and _assigned_field(n) == X:
                problems.append('%s changes %s (line %s): the admission a waiting reader relies on can be withdrawn' % (short(fn['name']), X, n.get('l')))
    ctor = [f for f in F.functions.get(FILE + '::File', []) if f.get('kind') == 'ctor']
    for mode in ('read', 'write'):
        rep.count('T2')
        rep.ob('T2', '%s|%s' % (st, mode), not problems, rep.fn_site(rd[0]['fn'], rd[0]['line']) if rd else None,
               ('%s, %s mode: the writer is admitted while m_tellp < %s and the reader publishes %s := its request end and wakes the writers before it '
                'waits - a blocked reader implies an admitted writer, for every request and buffer size') % (st, mode, X, X) if not problems else
               '%s, %s mode: %s' % (st, mode, '; '.join(problems[:3])), nontrivial=True)


def _normx(sx):
    return sx.replace('.operator long()', '').replace('this.', '') if isinstance(sx, str) else sx


def _assigned_field(n):
    t = None
    if n.get('k') == 'Bin' and n.get('op') in ('=', '+=', '-=', '|=', '&='):
        t = n['lhs']
    elif n.get('k') == 'Un' and n.get('op') in ('++', '--'):
        t = n['sub']
    elif n.get('k') == 'Call' and n.get('ck') == 'operator' and n.get('op') in ('=', '+=', '-=') and n.get('args'):
        t = n['args'][0]
    if t is None:
        return None
    p_ = member_path(t)
    return p_[-1] if p_ else None


def P8(F, rep, R, ws):
    """the quantity the stream's producers compare with the capacity is the distance between put and get position.  If the admission atom
    uses another member (a separately kept fill level), every method that moves m_tellg or m_tellp must update that member too - a
    counter that seekg() forgets drifts by the peeked header of every object, and the producer runs ahead by that much more"""
    st = 'm_uncompressedFile'
    cls = R.stages.get(st)
    g, cvs, mtx = guarded_fields(F, cls)
    wr = [w for w in ws if w['cls'] == cls and w['fn']['simple'] == 'write']
    for w in wr:
        rep.count('P8')
        caps = [d for d in w['disjuncts'] if any(x.get('k') == 'Member' and x.get('name') == 'm_bufferSize' for x in walk(d))]
        problem = None
        if not caps:
            problem = 'no disjunct compares anything with m_bufferSize'
        else:
            fields = sorted({x.get('name') for x in walk(caps[0]) if x.get('k') == 'Member' and x.get('dk') == 'field' and x.get('name') in g} - {'m_bufferSize'})
            derived = [f_ for f_ in fields if f_ not in ('m_tellp', 'm_tellg')]
            if derived:
                movers = [f for f in methods_of(F, cls) if f.get('kind') not in ('ctor', 'dtor') and writes_fields(f, {'m_tellg', 'm_tellp'})]
                lazy = [short(f['name']) for f in movers if not writes_fields(f, set(derived))]
                if lazy:
                    problem = ('the capacity is compared with %s, which %s do(es) not update although it moves the get / put position: the value drifts '
                               'away from m_tellp - m_tellg and the producer is admitted further and further ahead' % ('/'.join(derived), ', '.join(sorted(set(lazy)))))
            elif set(fields) != {'m_tellp', 'm_tellg'}:
                problem = 'the capacity atom [%s] does not involve both positions' % expr_str(caps[0])
        rep.ob('P8', '%s|%s' % (short(w['fn']['name']), w['fn']['sig'][:40]), problem is None, rep.fn_site(w['fn'], w['line']),
               '%s: the fill level held against m_bufferSize is m_tellp - m_tellg (or a member every mover of the positions maintains)' % short(w['fn']['name'])
               if problem is None else '%s: %s' % (short(w['fn']['name']), problem), nontrivial=True)


def P9(F, rep, R):
    """containers leave the stream through dropOldData() only: no other operation (read, write, seekg, ...) pops from the list, neither
    directly nor through a private helper.  A read that releases what it has just passed takes away the bytes a following seekg(-k)
    returns to (the decoder peeks an object header and steps back)"""
    cls = R.stages.get('m_uncompressedFile')
    rep.count('P9')
    bad = []
    n = 0
    for fn in methods_of(F, cls):
        if fn.get('kind') in ('ctor', 'dtor') or fn.get('access') == 2 or fn['simple'] == 'dropOldData':
            continue
        n += 1
        for x in flat_nodes(F, fn):
            if x.get('k') == 'Call' and x.get('fn') in ('pop_front', 'pop_back', 'erase', 'clear', 'pop') and (member_path(x.get('obj')) or (None,))[-1] == 'm_data':
                bad.append('%s (line %s)' % (short(fn['name']), x.get('l')))
    rep.ob('P9', 'who-may-drop', not bad and n > 5, None,
           'only dropOldData() removes containers from the stream (%d other operations looked at, helpers included)' % n if not bad else
           'containers are removed outside dropOldData(): %s - bytes the caller has not released are gone when it steps back' % ', '.join(sorted(set(bad))[:3]), nontrivial=True)


def K14(F, rep, R, FL):
    """read-mode close(): a stage is aborted only after its producer has been told to stop.  abort() switches the back-pressure wait off for
    good; an inflating thread that is still running behind it (its flag not cleared, its input not closed) reads the rest of the file into
    memory before the join returns"""
    close = R.close_fn
    rep.count('K14')
    bad = None
    n = 0
    # the loop flag of the inflating thread, by role: the std::atomic<bool> member of File that the entry function of the read-mode thread
    # feeding the in-memory stream tests (whatever it is called)
    flags = set()
    for c in R.calls:
        if c['stage'] == 'm_uncompressedFile' and c['method'] == 'write' and c['role'].startswith('T:') and c['mode'] in ('read', 'any'):
            for q, t in R.threads.items():
                if t.get('mode') == 'read' and q.endswith('::' + c['role'][2:]):
                    for fn_ in F.functions.get(q, []):
                        for x in walk(fn_['body']):
                            if x.get('k') == 'Member' and x.get('dk') == 'field' and x.get('owner') == FILE and 'atomic<bool>' in (x.get('t') or ''):
                                flags.add(x['name'])
    if not flags:
        raise AnalysisBroken('K14: the loop flag of the inflating thread was not found')
    fname = sorted(flags)[0]
    for evs, out in FL.paths(close, follow=()):
        taken = [R._mode_of_cond(e['n']) for e in evs if e['ev'] == 'branch' and e['taken'] and R._mode_of_cond(e['n'])]
        if 'read' not in taken or out not in ('normal', 'return'):
            continue
        ab = [i for i, e in enumerate(evs) if e['ev'] == 'call' and e['n'].get('fn') == 'abort' and recv_root_(e['n']) == 'm_uncompressedFile']
        if not ab:
            continue
        n += 1
        stop = [i for i, e in enumerate(evs[:ab[0]]) if e['ev'] == 'call' and e['n'].get('fn') == 'close' and recv_root_(e['n']) == 'm_compressedFile']
        flag = [i for i, e in enumerate(evs[:ab[0]]) if e['ev'] == 'assign' and _assigned_field(e['n']) in flags]
        if not stop or not flag:
            bad = ('m_uncompressedFile.abort() (line %s) comes before %s' % (evs[ab[0]].get('l'),
                   ' and '.join(x for x, y in (('m_compressedFile.close()', stop), ('%s = false' % fname, flag)) if not y)), evs)
            break
    rep.ob('K14', 'close|read|producer-stopped-first', bad is None and n > 0, rep.fn_site(close),
           'close() [read]: the inflating thread is stopped (flag cleared, compressed file closed) before the stream it fills is aborted (%d paths)' % n
           if bad is None and n > 0 else 'close() [read]: %s - the inflating thread runs on without back-pressure and buffers the rest of the file' %
           (bad[0] if bad else 'no aborting path'), nontrivial=True)


def K15(F, rep, R):
    """abort is final: the abort flag of a stage is set by abort() and by nothing else, and never cleared.  The flag is what releases every
    waiter of the stage; a waiter that was released by it and clears it on its way out (or a write that "re-opens" the queue) lets the next
    wait on the drained stage block for ever"""
    n = 0
    for cls in stage_classes(F, R):
        g, cvs, mtx = guarded_fields(F, cls)
        if 'm_abort' not in g:
            continue
        rep.count('K15')
        n += 1
        bad = None
        sets = 0
        for fn in methods_of(F, cls):
            if fn.get('kind') == 'ctor':
                continue
            for x in walk(fn['body']):
                tgt = None
                if x.get('k') == 'Bin' and x.get('op') in ('=', '|=', '&=', '^='):
                    tgt, rhs = x['lhs'], x['rhs']
                elif x.get('k') == 'Un' and x.get('op') in ('++', '--'):
                    tgt, rhs = x['sub'], None
                if tgt is None:
                    continue
                t = strip_all_casts(tgt)
                if not (isinstance(t, dict) and t.get('k') == 'Member' and t.get('name') == 'm_abort'):
                    continue
                v = strip_all_casts(rhs).get('v') if isinstance(strip_all_casts(rhs), dict) else None
                if fn['simple'] == 'abort' and x.get('op') == '=' and v == 1:
                    sets += 1
                else:
                    bad = bad or (fn, x.get('l'))
        rep.ob('K15', '%s|abort-final' % short(cls), bad is None and sets > 0, rep.fn_site(bad[0], bad[1]) if bad else None,
               '%s: the abort flag is set in abort() and changed nowhere else' % short(cls) if bad is None and sets > 0 else
               ('%s changes the abort flag (line %s): after an abort the stage can block again - a reader that drains it and reads once more waits for ever'
                % (short(bad[0]['name']), bad[1])) if bad else '%s::abort() does not set the flag' % short(cls), nontrivial=True)
    # (a class without the flag is K2's business - its waits have no abort atom; the floor of K15 in rules/floors.json notices a rule gone blind)


def recv_root_(call):
    p = member_path(call.get('obj')) if call.get('obj') is not None else None
    return field_root(p) if p else None


def Q45(F, rep, R, FL, ws):
    """Q4: the reader of the queue is released at the declared end by the bare comparison of the get count with the declared size
    (m_tellg >= m_fileSize) - a difference, a helper with unsigned arithmetic or a sentinel test changes for which declared sizes the reader
    is released; Q5: write() enqueues its argument on every path (an object that is deleted or dropped instead is never delivered)"""
    cls = R.stages.get('m_readWriteQueue')
    rd = [w for w in ws if w['cls'] == cls and w['fn']['simple'] == 'read']
    rep.count('Q4')
    ok = False
    seen = []
    FLIP = {'<': '>', '<=': '>=', '>': '<', '>=': '<=', '==': '==', '!=': '!='}
    for w in rd:
        # comparison atoms of the (helper-expanded) predicate with negations pushed in, written get-count-first
        ats = set()
        for a, op, b in _cmp_atoms(w['disjuncts']):
            seen.append('%s %s %s' % (a, op, b))
            if (a, b) == ('m_fileSize', 'm_tellg'):
                a, op, b = b, FLIP[op], a
            if (a, b) == ('m_tellg', 'm_fileSize'):
                ats.add(op)
        if '>=' in ats or {'>', '=='} <= ats:
            ok = True
    rep.ob('Q4', 'read|eof-atom', ok, rep.fn_site(rd[0]['fn'], rd[0]['line']) if rd else None,
           'ObjectQueue::read is released at the declared end by m_tellg >= m_fileSize' if ok else
           'ObjectQueue::read: no disjunct of the wait predicate is m_tellg >= m_fileSize (%s): for some declared sizes (smaller than the get count, 0) '
           'the reader is released too early or never' % ' || '.join(seen), nontrivial=True)
    wr = [f for f in methods_of(F, cls) if f['simple'] == 'write']
    for fn in wr:
        rep.count('Q5')
        pid = fn['params'][0]['id'] if fn.get('params') else None
        bad = None
        n = 0
        for evs, out in FL.paths(fn, follow=()):
            if out not in ('normal', 'return'):
                continue
            n += 1
            push = [e for e in evs if e['ev'] == 'call' and e['n'].get('fn') in ('push', 'emplace', 'push_back') and
                    (member_path(e['n'].get('obj')) or (None,))[-1] == 'm_queue' and any(_lid(a) == pid for a in e['n'].get('args', []))]
            dele = [e for e in evs if e['ev'] == 'delete' and _lid(e['n'].get('sub')) == pid]
            if not push or dele:
                bad = evs
                break
        rep.ob('Q5', 'write|enqueues-always', bad is None and n > 0, rep.fn_site(fn),
               'ObjectQueue::write enqueues its argument on each of its %d paths' % n if bad is None and n > 0 else
               'ObjectQueue::write can return without enqueuing its argument (%s): the object is never delivered' % (fmt_events(bad, limit=10) if bad else 'no path'),
               nontrivial=True)
        # Q6: "exact end-of-stream": write() may move the declared end, but only to a value that follows the put count (m_fileSize = m_tellp,
        # max(m_fileSize, m_tellp), ...).  An end that write() resets to something independent of the put count (the 'not declared' sentinel,
        # a constant) is lost: the reader that drained the queue is never released at the end that was declared.
        rep.count('Q6')
        bad6 = None
        n6 = 0
        for n in flat_nodes(F, fn):
            if _assigned_field(n) != 'm_fileSize':
                continue
            n6 += 1
            rhs = n.get('rhs') if n.get('k') == 'Bin' else (n['args'][1] if n.get('k') == 'Call' and len(n.get('args', [])) > 1 else None)
            if n.get('k') == 'Un' or (n.get('k') in ('Bin', 'Call') and n.get('op') in ('+=', '-=', '|=', '&=')):
                bad6 = bad6 or n   # the end is not a counter of write()
                continue
            mentions = set()
            if rhs is not None:
                for x in walk(deep_resolve(rhs, fn)):
                    mp_ = member_path(x)
                    if mp_:
                        mentions.add(mp_[-1])
            if 'm_tellp' not in mentions:
                bad6 = bad6 or n
        rep.ob('Q6', 'write|end-follows-put', bad6 is None, rep.fn_site(fn, bad6.get('line') if bad6 else None),
               'ObjectQueue::write moves the declared end only to the put count (%d assignment(s) to m_fileSize, each a function of m_tellp)' % n6 if bad6 is None else
               'ObjectQueue::write assigns m_fileSize a value that does not follow the put count m_tellp (%s): after a write past the declared end '
               'the end position is lost and the reader that drained the queue blocks instead of seeing end-of-stream' % expr_str(bad6),
               nontrivial=True)


def _iostate_value(F, name):
    """the numeric value of std::ios_base::<name> as the front end folded it somewhere in the analysed sources"""
    cache = F.__dict__.setdefault('_iostate', {})
    if name not in cache:
        cache[name] = None
        for fns in F.functions.values():
            for g_ in fns:
                for n in walk(g_['body']):
                    if n.get('k') == 'Ref' and n.get('name') == name and 'v' in n and (n.get('q') or '').startswith('std::'):
                        cache[name] = n['v']
                        break
                if cache[name] is not None:
                    break
            if cache[name] is not None:
                break
    return cache[name]


def _cmp_atoms(disjuncts):
    """(lhs, op, rhs) of every disjunct that is a comparison, negations pushed into the operator: !(a >= b) is a < b"""
    NEG = {'<': '>=', '<=': '>', '>': '<=', '>=': '<', '==': '!=', '!=': '=='}
    out = []
    for d in disjuncts:
        x = strip_all_casts(d)
        neg = False
        while isinstance(x, dict) and (x.get('k') == 'Paren' or (x.get('k') == 'Un' and x.get('op') == '!')):
            if x.get('k') == 'Un':
                neg = not neg
            x = strip_all_casts(x.get('sub'))
        if isinstance(x, dict) and x.get('k') == 'Bin' and x.get('op') in NEG:
            op = NEG[x['op']] if neg else x['op']
            out.append((expr_str(x['lhs']).replace('this.', ''), op, expr_str(x['rhs']).replace('this.', '')))
    return out


def _lid(e):
    e = strip_all_casts(e) if e is not None else None
    return e.get('id') if isinstance(e, dict) and e.get('k') == 'Ref' else None


def K5v(F, rep, R):
    """the end of stream a producer declares is the stage's own put position: every setFileSize() that File issues on a stage passes that
    stage's tellp().  A count kept on the side (declared sizes, objects seen) can run ahead of what was really delivered - then the
    consumer waits for data behind the last byte that will ever arrive"""
    n = 0
    for fn in methods_of(F, FILE):
        for x in walk(fn['body']):
            if x.get('k') == 'Call' and x.get('fn') == 'setFileSize' and recv_root_(x) in R.stages:
                st = recv_root_(x)
                n += 1
                rep.count('K5v')
                a = strip_all_casts(deep_resolve(x['args'][0], fn)) if x.get('args') else None
                while isinstance(a, dict) and a.get('k') == 'Construct' and len(a.get('args', [])) == 1:
                    a = strip_all_casts(a['args'][0])
                while isinstance(a, dict) and a.get('k') == 'Call' and str(a.get('fn') or '').startswith('operator ') and a.get('obj') is not None:
                    a = strip_all_casts(a['obj'])      # conversion operator of std::streampos
                ok = isinstance(a, dict) and a.get('k') == 'Call' and a.get('fn') == 'tellp' and recv_root_(a) == st
                rep.ob('K5v', '%s|%s@%d' % (short(fn['name']), st, n), ok, rep.fn_site(fn, x.get('l')),
                       '%s declares the end of %s at its put position' % (short(fn['name']), st) if ok else
                       '%s declares the end of %s at [%s], not at %s.tellp(): an end beyond the data that will arrive blocks the consumer for good, one in front '
                       'of it loses the tail' % (short(fn['name']), st, expr_str(x['args'][0]) if x.get('args') else '?', st), nontrivial=True)
    if n < 3:
        raise AnalysisBroken('K5v: expected the end-of-stream declarations of File (4 today), found %d' % n)


def P6(F, rep, R, FL):
    """the get position never moves back behind released data: in the functions that consume from the stream, no seekg by a possibly
    negative distance follows dropOldData() on the same path (dropOldData releases the front container as soon as the get position has
    passed its end; a rewind after that points into bytes that are gone - the decoder then reads nothing, stays 'good' and searches for an
    object signature forever)"""
    st = 'm_uncompressedFile'
    consumers = sorted({c['caller'] for c in R.calls if c['stage'] == st and c['method'] in ('read', 'seekg') and c['caller'].startswith(FILE + '::')} |
                       {c['chain'][1] for c in R.calls if c['stage'] == st and c['method'] == 'read' and len(c['chain']) > 1 and c['chain'][1].startswith(FILE + '::')})
    n = 0
    for q in consumers:
        fn = F.fn(q)
        if not any(x.get('k') == 'Call' and x.get('fn') == 'dropOldData' for x in walk(fn['body'])):
            continue
        n += 1
        rep.count('P6')
        bad = None
        for evs, out in FL.paths(fn, follow=()):
            drops = [i for i, e in enumerate(evs) if e['ev'] == 'call' and e['n'].get('fn') == 'dropOldData' and field_root(member_path(e['n'].get('obj'))) == st]
            if not drops:
                continue
            for i, e in enumerate(evs):
                if i <= drops[0] or e['ev'] != 'call' or e['n'].get('fn') != 'seekg' or field_root(member_path(e['n'].get('obj'))) != st or not e['n'].get('args'):
                    continue
                a0 = strip_all_casts(deep_resolve(e['n']['args'][0], fn))
                if not isinstance(a0, dict):
                    continue
                if 'v' in a0 and a0['v'] >= 0:
                    continue
                t_ = a0.get('t') or ''
                unsigned = t_.startswith('unsigned') or t_.startswith('uint') or 'size_t' in t_ and 'ssize' not in t_
                if unsigned and not (a0.get('k') == 'Un' and a0.get('op') == '-'):
                    continue
                # a rewind that only takes back (part of) what was consumed since the drop ends at or behind the position the drop saw:
                # the rewinds of this code base compensate a read (peeked header, over-read object), so a consuming call in between
                # is accepted; a rewind with nothing consumed since the drop goes behind it
                last_drop = max(d for d in drops if d < i)
                consumed = [x for x in evs[last_drop + 1:i] if x['ev'] == 'call' and x['n'].get('fn') == 'read' and
                            (field_root(member_path(x['n'].get('obj')) or ()) == st or
                             any(field_root(member_path(a_) or ()) == st for a_ in x['n'].get('args', [])))]
                if consumed:
                    continue
                bad = (e, evs)
                break
            if bad:
                break
        rep.ob('P6', short(q), bad is None, rep.fn_site(fn, bad[0].get('l')) if bad else rep.fn_site(fn),
               '%s: every backward seek on the stream precedes dropOldData()' % short(q) if bad is None else
               '%s: seekg(%s) at line %s may move the get position back after dropOldData() has released the containers behind it: %s' %
               (short(q), expr_str(bad[0]['n']['args'][0]), bad[0].get('l'), fmt_events(bad[1], limit=16)), nontrivial=True)
    if n < 1:
        raise AnalysisBroken('P6: no consumer of the stream calls dropOldData()')


def buffer_tracks_container(F, FL, st):
    """invariant bufferSize == defaultLogContainerSize of the stream: every File function that sets the container size sets the
    buffer size to the same expression afterwards on every path, and no other value is ever given to setBufferSize"""
    setters = 0
    for name, fns in F.functions.items():
        for fn in fns:
            if fn.get('class') != FILE:
                continue
            calls = [n for n in walk(fn['body']) if n.get('k') == 'Call' and field_root(member_path(n.get('obj')) or ()) == st]
            sb = [n for n in calls if n.get('fn') == 'setBufferSize']
            sc = [n for n in calls if n.get('fn') == 'setDefaultLogContainerSize']
            for n in sb:
                a = strip_all_casts(deep_resolve(n['args'][0], fn))
                from_getter = a.get('k') == 'Call' and a.get('fn') == 'defaultLogContainerSize' and field_root(member_path(a.get('obj')) or ()) == st
                same_as_setter = any(expr_str(deep_resolve(x['args'][0], fn)) == expr_str(deep_resolve(n['args'][0], fn)) and x['l'] <= n['l'] for x in sc)
                if not (from_getter or same_as_setter):
                    return False, '%s gives setBufferSize(%s)' % (short(fn['name']), expr_str(a))
            for x in sc:
                setters += 1
                for evs, out in FL.paths(fn, follow=()):
                    idx = [i for i, e in enumerate(evs) if e['ev'] == 'call' and e['n'] is x]
                    if not idx or out not in ('normal', 'return'):
                        continue
                    if not any(e['ev'] == 'call' and e['n'].get('fn') == 'setBufferSize' and field_root(member_path(e['n'].get('obj')) or ()) == st and
                               expr_str(deep_resolve(e['n']['args'][0], fn)) == expr_str(deep_resolve(x['args'][0], fn)) for e in evs[idx[0]:]):
                        return False, '%s changes the container size without adjusting the buffer size' % short(fn['name'])
    return True, '%d setter site(s) adjust both' % setters


def resolve_alias(e, fn):
    """a local initialised once and never reassigned stands for its initialiser (const uint32_t n = f(); ... n ...)"""
    for _ in range(4):
        x = strip_all_casts(e)
        if not (isinstance(x, dict) and x.get('k') == 'Ref' and x.get('dk') == 'local'):
            return e
        vid = x['id']
        init = None
        for n in walk(fn['body'], into_lambda=False):
            if n.get('k') == 'Decl':
                for v in n['vars']:
                    if v['id'] == vid:
                        init = v.get('init')
        if init is None:
            return e
        for n in walk(fn['body'], into_lambda=False):
            if n.get('k') == 'Bin' and n.get('op') in ('=', '+=', '-=', '*=', '/=') and strip_all_casts(n['lhs']).get('id') == vid:
                return e
            if n.get('k') == 'Un' and n.get('op') in ('++', '--', '&') and strip_all_casts(n['sub']).get('id') == vid:
                return e
        e = init
    return e


def _alias_table(fn):
    """locals that are initialised once and never reassigned / address-taken / mutated through a non-const method"""
    t = fn.get('_alias')
    if t is not None:
        return t
    inits, bad = {}, set()
    for n in walk(fn['body']):
        k = n.get('k')
        if k == 'Decl':
            for v in n['vars']:
                if v.get('init') is not None and not v.get('static'):
                    if v['id'] in inits:
                        bad.add(v['id'])
                    inits[v['id']] = v['init']
                else:
                    bad.add(v['id'])
        elif k == 'Bin' and n.get('op') in ('=', '+=', '-=', '*=', '/=', '|=', '&=', '%='):
            x = strip_all_casts(n['lhs'])
            if isinstance(x, dict) and x.get('k') == 'Ref':
                bad.add(x.get('id'))
        elif k == 'Un' and n.get('op') in ('++', '--', '&'):
            x = strip_all_casts(n['sub'])
            if isinstance(x, dict) and x.get('k') == 'Ref':
                bad.add(x.get('id'))
        elif k == 'Call' and n.get('ck') == 'operator' and n.get('op') in ('=', '+=', '-=', '++', '--') and n.get('args'):
            x = strip_all_casts(n['args'][0])
            if isinstance(x, dict) and x.get('k') == 'Ref':
                bad.add(x.get('id'))
        elif k == 'Call' and n.get('ck') == 'member' and not n.get('cconst') and n.get('obj') is not None:
            x = strip_all_casts(n['obj'])
            if isinstance(x, dict) and x.get('k') == 'Ref' and not x.get('t', '').endswith('*') and 'shared_ptr' not in x.get('t', ''):
                bad.add(x.get('id'))
    bad |= _alias_scan_extra(fn)
    t = {i: e for i, e in inits.items() if i not in bad}
    fn['_alias'] = t
    return t


def _alias_scan_extra(fn):
    """locals that must not be treated as aliases: objects (copies are different things than their source), containers, and anything
    handed to another function by reference / pointer (it may be changed there)"""
    bad = set()
    for n in walk(fn['body']):
        if n.get('k') == 'Decl':
            for v in n['vars']:
                t = v.get('t', '')
                if v.get('kind') == 'record' and not t.endswith('*') and '&' not in t:
                    if 'Vector::BLF::' in t or t.startswith(('std::vector', 'std::basic_string', 'std::list', 'std::queue', 'std::array',
                                                              'std::unique_lock', 'std::lock_guard', 'std::thread')):
                        bad.add(v['id'])
        if n.get('k') in ('Call', 'Construct') and n.get('calleeInRoot'):
            for a in n.get('args', []):
                x = strip_all_casts(a)
                if isinstance(x, dict) and x.get('k') == 'Un' and x.get('op') == '&':
                    x = strip_all_casts(x['sub'])
                if isinstance(x, dict) and x.get('k') == 'Ref' and x.get('dk') == 'local' and not x.get('t', '').endswith('*'):
                    # by-value scalars are harmless, objects may be taken by reference
                    if 'Vector::BLF::' in x.get('t', '') or x.get('t', '').startswith('std::'):
                        bad.add(x['id'])
    return bad


_FACTS = [None]


def set_facts(F):
    _FACTS[0] = F


def _file_alias_table(F, fn):
    """alias tables of all functions defined in the same source file (one translation unit: local ids are unique in it)"""
    cache = F.__dict__.setdefault('_file_alias', {})
    key = fn.get('file')
    if key not in cache:
        t = {}
        for fns in F.functions.values():
            for g_ in fns:
                if g_.get('file') == key:
                    t.update(_alias_table(g_))
        cache[key] = t
    return cache[key]


def _inline_value_helper(call, fn, depth):
    """static bool objectSizeCoversHeader(const ObjectHeaderBase & ohb) { return ohb.objectSize >= ohb.calculateHeaderSize(); } - a call of a
    file-local function, or of a private method on this, whose body only declares single-assignment locals and returns one scalar expression
    stands for that expression with the parameters bound to the arguments (None when that is not the case or not sound)"""
    F = _FACTS[0]
    cands = [c for c in F.functions.get(call.get('callee'), []) if c['sig'] == call.get('csig')]
    if len(cands) != 1:
        return None
    c = cands[0]
    if call.get('ck') == 'function':
        if not (c.get('kind') == 'function' and c.get('file') == fn.get('file')):
            return None
    elif call.get('ck') == 'member':
        o = strip_all_casts(call.get('obj')) if call.get('obj') is not None else None
        if not (c.get('access') == 2 and not call.get('virt') and c.get('class') == fn.get('class') and (o is None or (isinstance(o, dict) and o.get('k') == 'This'))):
            return None
    else:
        return None
    rt = (c.get('ret') or '').replace('const ', '')
    if not (rt == 'bool' or rt.startswith('uint') or rt.startswith('int') or rt in ('std::streamsize', 'std::streamoff', 'size_t', 'std::size_t', 'unsigned int', 'long', 'unsigned long')):
        return None
    body = c.get('body') or {}
    stmts = body.get('body', []) if body.get('k') == 'Compound' else [body]
    if not stmts or any(not isinstance(x, dict) or x.get('k') not in ('Decl', 'Return') for x in stmts) or stmts[-1].get('k') != 'Return' or \
            sum(1 for x in walk(body, into_lambda=False) if x.get('k') == 'Return') != 1 or stmts[-1].get('value') is None:
        return None
    params = c.get('params', [])
    args = [a for a in call.get('args', [])]
    if len(params) != len(args):
        return None
    try:
        bound = flow.Flow.bind_params(params, args, stmts[-1]['value'])
    except Exception:
        return None
    pids = {p_['id'] for p_ in params}
    if any(x.get('k') == 'Ref' and x.get('dk') == 'parm' and x.get('id') in pids for x in walk(bound)):
        return None     # a parameter could not be bound soundly
    inner = deep_resolve(deep_resolve(bound, c, depth + 1), fn, depth + 1)
    if isinstance(inner, dict) and c.get('ret') and inner.get('t') != rt:
        inner = {'k': 'Cast', 'style': 'decl', 'cast': 'Conversion', 't': rt, 'from': inner.get('t'), 'sub': inner, 'l': call.get('l')}
    return inner


def deep_resolve(e, fn, depth=0):
    """copy of the expression with every single-assignment local replaced by its initialiser (copy propagation):
    `const auto n = f(); g(n)` is analysed as `g(f())`"""
    if not isinstance(e, dict) or depth > 6:
        return e
    t = _alias_table(fn)
    if e.get('k') == 'Ref' and e.get('dk') == 'local' and e.get('id') not in t and _FACTS[0] is not None:
        t = _file_alias_table(_FACTS[0], fn)
    x = e
    if e.get('k') == 'Ref' and e.get('dk') == 'local' and e.get('id') in t:
        init = t[e['id']]
        r = deep_resolve(init, fn, depth + 1)
        # the declared type of the local is a conversion of its initialiser (std::size_t fill = a - b;)
        if isinstance(r, dict) and e.get('t') and r.get('t') and e['t'] != r['t'] and e['t'].replace('const ', '') != r['t'].replace('const ', ''):
            return {'k': 'Cast', 'style': 'decl', 'cast': 'Conversion', 't': e['t'].replace('const ', ''), 'from': r.get('t'), 'sub': r, 'l': e.get('l')}
        return r
    if e.get('k') == 'Call' and e.get('calleeInRoot') and _FACTS[0] is not None and depth < 4:
        r = _inline_value_helper(e, fn, depth)
        if r is not None:
            return r
    out = {}
    for k, v in e.items():
        if isinstance(v, dict):
            out[k] = deep_resolve(v, fn, depth)
        elif isinstance(v, list):
            out[k] = [deep_resolve(i, fn, depth) if isinstance(i, dict) else i for i in v]
        else:
            out[k] = v
    return out


def bounded_expr(F, e):
    """the expression is a compile-time bounded quantity: constants, sizeof, size() of std::array members, products/sums of those"""
    e = strip_all_casts(e)
    if not isinstance(e, dict):
        return False
    if 'v' in e:
        return True
    if e.get('k') == 'Bin' and e.get('op') in ('*', '+'):
        return bounded_expr(F, e['lhs']) and bounded_expr(F, e['rhs'])
    if e.get('k') == 'Call' and e.get('fn') == 'size' and (e.get('cls') or '').startswith('std::array'):
        return True
    return False


# ---------------------------------------------------------------------- Q1 / Q2 queue discipline
def Q(F, rep, R, FL):
    cls = R.stages.get('m_readWriteQueue')
    if cls is None:
        raise AnalysisBroken('m_readWriteQueue vanished')
    r = F.rec(cls)
    qf = [f for f in r['fields'] if f['name'] == 'm_queue']
    rep.count('Q1')
    rep.ob('Q1', 'storage', bool(qf) and qf[0]['t'].startswith('std::queue<'), None,
           'ObjectQueue storage is %s' % (qf[0]['t'] if qf else 'missing'), nontrivial=True)
    ops = {}
    for fn in methods_of(F, cls):
        for n in walk(fn['body']):
            if n.get('k') == 'Call' and n.get('ck') == 'member':
                p = member_path(n.get('obj'))
                if p and p[-1] == 'm_queue':
                    ops.setdefault(fn['simple'], []).append(n['fn'])
    # what a private helper does to the storage counts for the operations that call it (deleteQueuedObjects() for the destructor)
    meths = methods_of(F, cls)
    priv = {f['simple'] for f in meths if f.get('access') == 2}
    calls = {}
    for fn in meths:
        for n in walk(fn['body']):
            if n.get('k') == 'Call' and n.get('ck') == 'member' and n.get('clsq') == cls and n.get('fn') in priv:
                o = strip_all_casts(n.get('obj'))
                if isinstance(o, dict) and o.get('k') == 'This':
                    calls.setdefault(fn['simple'], set()).add(n['fn'])
    changed = True
    while changed:
        changed = False
        for m, hs in calls.items():
            for h in list(hs):
                for x in ops.get(h, []):
                    if x not in ops.setdefault(m, []):
                        ops[m].append(x)
                        changed = True
    called = {h for hs in calls.values() for h in hs}
    for h in priv & called:
        ops.pop(h, None)
    allowed = {'read': {'empty', 'front', 'pop'}, 'write': {'size', 'push'}, '~ObjectQueue': {'empty', 'front', 'pop'}}
    for m, lst in sorted(ops.items()):
        rep.count('Q1')
        extra = set(lst) - allowed.get(m, {'empty', 'size'})
        rep.ob('Q1', 'ops|%s' % m, not extra, None, 'ObjectQueue::%s uses m_queue.{%s}%s' % (m, ','.join(sorted(set(lst))),
                                                                                         '' if not extra else ' - not FIFO discipline: ' + ','.join(sorted(extra))), nontrivial=True)
    # Q3: capacity is exact - a producer is held back while size() == capacity: the admission atom is  size() < m_bufferSize
    rep.count('Q3')
    wr = [f for f in methods_of(F, cls) if f['simple'] == 'write']
    atoms = []
    for w in wait_sites(F, R):
        if w['cls'] != cls or w['fn']['simple'] != 'write':
            continue
        # the disjuncts of the (helper-expanded) predicate, negations pushed into the comparison:  !(size() >= cap)  is  size() < cap
        atoms += _cmp_atoms(w['disjuncts'])
    ok = any((a[0] == 'm_queue.size()' and a[1] == '<' and a[2] == 'm_bufferSize') or
             (a[0] == 'm_bufferSize' and a[1] == '>' and a[2] == 'm_queue.size()') for a in atoms)
    rep.ob('Q3', 'write|capacity-exact', ok, rep.fn_site(wr[0]) if wr else None,
           'ObjectQueue::write is admitted exactly while m_queue.size() < m_bufferSize' if ok else
           'ObjectQueue::write admission test is %s: the queue can exceed (or never reach) its configured capacity' % (atoms or 'missing'), nontrivial=True)
    # Q2 on read(): path shape
    rd = [f for f in methods_of(F, cls) if f['simple'] == 'read']
    if len(rd) != 1:
        raise AnalysisBroken('ObjectQueue::read not found')
    rd = rd[0]
    paths = FL.paths(rd, follow=())
    rep.analysed['paths'] += len(paths)
    for evs, out in paths:
        rep.count('Q2')
        empty_branch = None
        impure = False
        for e in evs:
            if e['ev'] == 'branch':
                en = deep_resolve(e['n'], rd)      # const bool empty = m_queue.empty(); ... if (!empty)
                calls = [x for x in walk(en) if x.get('k') == 'Call' and x.get('fn') == 'empty']
                if calls:
                    neg = any(x.get('k') == 'Un' and x.get('op') == '!' for x in walk(en))
                    empty_branch = e['taken'] != neg
                    # the decision must be m_queue.empty() alone: any other atom lets eof be reported while objects remain
                    c = strip(en)
                    while isinstance(c, dict) and (c.get('k') == 'Cast' or (c.get('k') == 'Un' and c.get('op') == '!')):
                        c = strip(c['sub'])
                    if not (isinstance(c, dict) and c.get('k') == 'Call' and c.get('fn') == 'empty'):
                        impure = True
        fronts = [i for i, e in enumerate(evs) if e['ev'] == 'call' and e['n'].get('fn') == 'front']
        pops = [i for i, e in enumerate(evs) if e['ev'] == 'call' and e['n'].get('fn') == 'pop']
        rdstate = [e for e in evs if e['ev'] == 'assign' and (member_path(e['n'].get('lhs') or (e['n'].get('args') or [None])[0]) or (None,))[-1] == 'm_rdstate']
        # m_rdstate = empty ? (eofbit | failbit) : goodbit;  - the arm that belongs to this path
        def _arm(n_):
            r_ = n_.get('rhs') if n_.get('k') == 'Bin' else ((n_.get('args') or [None, None])[1] if len(n_.get('args') or []) > 1 else None)
            r0 = strip_all_casts(r_) if r_ is not None else None
            while isinstance(r0, dict) and r0.get('k') == 'Paren':
                r0 = strip_all_casts(r0.get('sub'))
            if isinstance(r0, dict) and r0.get('k') == 'Cond' and empty_branch is not None:
                cn = deep_resolve(r0.get('cond'), rd)
                if [x for x in walk(cn) if x.get('k') == 'Call' and x.get('fn') == 'empty']:
                    ng = any(x.get('k') == 'Un' and x.get('op') == '!' for x in walk(cn))
                    return r0.get('then') if (empty_branch != ng) else r0.get('else')
            return n_
        sets_eof = any('eofbit' in str([x.get('q') for x in walk(_arm(e['n']))]) for e in rdstate)
        sets_good = any('goodbit' in str([x.get('q') for x in walk(_arm(e['n']))]) for e in rdstate)
        # a named constant (const std::ios_base::iostate endOfQueueState = eofbit | failbit;) is folded by the front end: decide on the value
        eofv = _iostate_value(F, 'eofbit')
        for e in rdstate:
            rhs = e['n'].get('rhs') if e['n'].get('k') == 'Bin' else (e['n'].get('args') or [None, None])[1:2][0] if len(e['n'].get('args') or []) > 1 else None
            rv = strip_all_casts(rhs) if rhs is not None else None
            if isinstance(rv, dict) and rv.get('k') == 'Ref' and rv.get('dk') == 'global' and 'v' in rv and eofv:
                if rv['v'] & eofv:
                    sets_eof = True
                elif rv['v'] == 0:
                    sets_good = True
        ret = [e for e in evs if e['ev'] == 'return']
        if impure:
            ok = False
            what = 'ObjectQueue::read decides between eof and delivery on more than m_queue.empty(): end-of-stream can be reported while objects remain'
        elif empty_branch is None:
            ok = False
            what = 'ObjectQueue::read path does not test m_queue.empty() after the wait'
        elif empty_branch:
            ok = not fronts and not pops and sets_eof and not sets_good
            what = 'empty branch: no front/pop, eof|fail set, nullptr returned' if ok else 'empty branch touches the queue or does not set eof'
        else:
            ok = len(fronts) == 1 and len(pops) == 1 and fronts[0] < pops[0] and sets_good and not sets_eof
            what = 'non-empty branch: front then pop exactly once, goodbit set' if ok else \
                   'non-empty branch must take front(), pop() once, and set goodbit (fronts=%d pops=%d eof=%s)' % (len(fronts), len(pops), sets_eof)
        rep.ob('Q2', 'read|%s' % ('empty' if empty_branch else 'nonempty' if empty_branch is not None else 'untested'), ok, rep.fn_site(rd), what,
               nontrivial=True)
    # returned value is the popped element on the non-empty branch, null initialiser otherwise
    rep.count('Q2')
    decl_null = False
    ret_var = None
    for n in walk(rd['body']):
        if n.get('k') == 'Decl':
            for v in n['vars']:
                init = strip_all_casts(v.get('init')) if v.get('init') else None
                if v['t'].endswith('*') and isinstance(init, dict) and init.get('lit') == 'null':
                    decl_null = True
                    ret_var = v['id']
    rets = [n for n in walk(rd['body'], into_lambda=False) if n.get('k') == 'Return']
    ret_ok = all((strip_all_casts(x.get('value')) or {}).get('id') == ret_var for x in rets if x.get('value')) and bool(rets)
    assigns = [n for n in walk(rd['body']) if n.get('k') == 'Bin' and n.get('op') == '=' and strip_all_casts(n['lhs']).get('id') == ret_var]
    asg_ok = len(assigns) == 1 and strip_all_casts(assigns[0]['rhs']).get('fn') == 'front'
    rep.ob('Q2', 'read|result', decl_null and ret_ok and asg_ok, rep.fn_site(rd),
           'ObjectQueue::read returns a pointer that is nullptr unless assigned m_queue.front() (null-init=%s, returns-it=%s, single front assignment=%s)'
           % (decl_null, ret_ok, asg_ok), nontrivial=True)


# ---------------------------------------------------------------------- P1-P3 bounded buffering
def P(F, rep, R, FL, ws):
    # P1: File::File configures finite capacities on both CV stages
    ctor = [f for f in F.functions.get(FILE + '::File', []) if f.get('kind') == 'ctor']
    if not ctor:
        raise AnalysisBroken('File::File vanished')
    for st, cls in sorted(R.stages.items()):
        if not F.method(cls, 'setBufferSize'):
            continue
        rep.count('P1')
        calls = [n for n in walk(ctor[0]['body']) if n.get('k') == 'Call' and n.get('fn') == 'setBufferSize' and field_root(member_path(n.get('obj'))) == st]
        ok = len(calls) >= 1
        arg = expr_str(calls[0]['args'][0]) if calls else None
        where = 'File::File'
        if not ok:
            # ... or open() does, on every path that starts the workers and before it starts them
            npaths = 0
            ok = True
            for evs, out in FL.paths(R.open_fn, follow=()):
                if not [1 for e in evs if e['ev'] == 'branch' and e['taken'] and R._mode_of_cond(e['n'])]:
                    continue
                npaths += 1
                th = [i for i, e in enumerate(evs) if e['ev'] == 'call' and (e['n'].get('callee') or '').startswith('std::thread::')]
                sb = [i for i, e in enumerate(evs) if e['ev'] == 'call' and e['n'].get('fn') == 'setBufferSize' and field_root(member_path(e['n'].get('obj'))) == st]
                if not sb or (th and sb[0] > th[0]):
                    ok = False
                elif arg is None:
                    arg = expr_str(evs[sb[0]]['n']['args'][0])
            ok = ok and npaths > 0
            where = 'File::open (before the workers start)'
        rep.ob('P1', st, ok, rep.fn_site(ctor[0]), '%s configures %s.setBufferSize(%s)' % (where, st, arg) if ok else
               'neither File::File nor File::open (before the workers start) bounds %s (the default capacity is numeric_limits::max())' % st, nontrivial=True)
    # P2: every insertion into stage storage is preceded by a back-pressure wait whose predicate reads the capacity
    for cls in stage_classes(F, R):
        g, cvs, mtx = guarded_fields(F, cls)
        if len(cvs) < 2:
            continue
        for fn in methods_of(F, cls):
            if is_private_helper(F, fn):
                continue   # judged as part of the public methods that call it
            ins = [n for n in flat_nodes(F, fn) if n.get('k') == 'Call' and n.get('fn') in ('push_back', 'push', 'emplace_back', 'emplace') and
                   (member_path(n.get('obj')) or (None,))[-1] in g]
            if not ins:
                continue
            rep.count('P2')
            w = [x for x in ws if x['fn'] is fn or (x['fn']['name'] == fn['name'] and x['fn']['sig'] == fn['sig'])]
            direct = [n for n in walk(fn['body']) if n in ins or any(n is i for i in ins)]
            first_ins_line = min([n['l'] for n in walk(fn['body']) if n.get('k') == 'Call' and (any(n is i for i in ins) or
                                  (n.get('calleeInRoot') and n.get('clsq') == cls and any(i in list(flat_nodes(F, c_)) for c_ in F.functions.get(n.get('callee'), []) for i in ins)))] or [10 ** 9])
            ok = bool(w) and all('m_bufferSize' in x['fields'] for x in w) and min(x['line'] for x in w) < first_ins_line and \
                all(x['variant'] == 'wait' for x in w)
            rep.ob('P2', short(fn['name']) + '|' + fn['sig'], ok, rep.fn_site(fn, ins[0]['l']),
                   '%s inserts into %s %s' % (short(fn['name']), (member_path(ins[0].get('obj')) or ('?',))[-1],
                                              'after a wait whose predicate compares against m_bufferSize' if ok else
                                              ('after a TIMED wait: on timeout the insertion happens above the capacity - unbounded growth while the consumer stalls'
                                               if w and any(x['variant'] != 'wait' for x in w) else
                                               'WITHOUT a preceding back-pressure wait on the capacity - unbounded growth')), nontrivial=True)
    # P3: dropOldData() on every committing path of the functions that consume from the stream
    st = 'm_uncompressedFile'
    consumers = sorted({c['caller'] for c in R.calls if c['stage'] == st and c['method'] == 'read' and c['caller'].startswith(FILE + '::')} |
                       {c['chain'][1] for c in R.calls if c['stage'] == st and c['method'] == 'read' and len(c['chain']) > 1 and c['chain'][1].startswith(FILE + '::')})
    for q in consumers:
        fn = F.fn(q)
        rep.count('P3')
        paths = FL.paths(fn, follow=())
        bad = None
        for evs, out in paths:
            if out != 'normal' and out != 'return':
                continue
            commits = [i for i, e in enumerate(evs) if e['ev'] == 'call' and e['n'].get('fn') == 'write' and
                       field_root(member_path(e['n'].get('obj'))) in ('m_readWriteQueue',) or
                       (e['ev'] == 'call' and e['n'].get('fn') == 'write' and any(field_root(member_path(a)) == 'm_compressedFile' for a in e['n'].get('args', [])))]
            # consuming without delivering (skipping an unknown object) advances the get position just the same:
            # a forward seek by a non-constant distance on the stream
            for i, e in enumerate(evs):
                if e['ev'] == 'call' and e['n'].get('fn') == 'seekg' and field_root(member_path(e['n'].get('obj'))) == st and e['n'].get('args'):
                    a0 = strip_all_casts(e['n']['args'][0])
                    if isinstance(a0, dict) and 'v' not in a0 and not (a0.get('k') == 'Un' and a0.get('op') == '-') and \
                            not (a0.get('k') == 'Ref' and a0.get('dk') == 'local'):
                        commits.append(i)
            commits.sort()
            if not commits:
                continue
            drops = [i for i, e in enumerate(evs) if e['ev'] == 'call' and e['n'].get('fn') == 'dropOldData' and field_root(member_path(e['n'].get('obj'))) == st]
            # one drop per invocation is enough wherever it sits (the function runs in a loop: what this call leaves behind the next one
            # releases); that it does not sit in front of a rewind is P6
            if not drops:
                bad = evs
                break
        rep.ob('P3', short(q), bad is None, rep.fn_site(fn),
               '%s calls %s.dropOldData() on every path that commits / skips' % (short(q), st) if bad is None else
               '%s consumes from the stream without ever dropping consumed containers: %s - memory grows with the file' % (short(q), fmt_events(bad)), nontrivial=True)
    # dropOldData can actually pop
    cls = R.stages[st]
    d = [f for f in methods_of(F, cls) if f['simple'] == 'dropOldData']
    rep.count('P3')
    pops = [n for f in d for n in flat_nodes(F, f) if n.get('k') == 'Call' and n.get('fn') in ('pop_front', 'pop', 'erase') and
            (member_path(n.get('obj')) or (None,))[-1] == 'm_data']
    rep.ob('P3', 'dropOldData|pops', bool(pops), rep.fn_site(d[0]) if d else None,
           'UncompressedFile::dropOldData removes the front container (m_data.pop_front)' if pops else 'dropOldData never removes anything', nontrivial=True)
    # P7: ... and all of them.  One consumer step can pass several containers (an object larger than a container, a request larger than the
    # containers in the list); the consumers call dropOldData() once per step, so a call that releases at most one container leaves the others
    # behind for good whenever such steps follow each other
    rep.count('P7')
    looped = False
    for f in d:
        for lp in flat_nodes(F, f):
            if lp.get('k') in ('While', 'For', 'Do') and any(any(x is pp for x in walk(lp.get('body') or {})) for pp in pops):
                looped = True
    # ... and the loop stops for two reasons only: the list is empty, or the front container is not wholly consumed.  Any other way out after
    # a pop (a budget, a count, "one per call") leaves consumed containers behind
    early = None
    if looped:
        for f in d:
            for evs, out in FL.paths(f, follow=(), unroll=2):
                pi = [i for i, e in enumerate(evs) if e['ev'] == 'call' and e['n'].get('fn') in ('pop_front', 'pop', 'erase') and
                      (member_path(e['n'].get('obj')) or (None,))[-1] == 'm_data']
                if not pi:
                    continue
                brs = [e for e in evs[pi[-1]:] if e['ev'] == 'branch']
                if not brs:
                    early = 'leaves right after a pop without looking at the next container (line %s)' % evs[pi[-1]].get('l')
                    break
                last = brs[-1]
                names = {x.get('name') for x in walk(deep_resolve(last['n'], f)) if x.get('k') == 'Member'} | \
                    {x.get('fn') for x in walk(last['n']) if x.get('k') == 'Call'}
                if not ({'m_tellg'} & names or {'empty', 'size'} & names or any('operator bool' in str(n_) for n_ in names)):
                    early = 'stops after a pop on [%s] (line %s), which is neither "list empty" nor "front container not consumed"' % (expr_str(last['n']), last.get('l'))
                    break
            if early:
                break
    rep.ob('P7', 'dropOldData|all-consumed', looped and early is None, rep.fn_site(d[0]) if d else None,
           'UncompressedFile::dropOldData releases every container behind the get position (the pop sits in a loop)' if looped and early is None else
           'UncompressedFile::dropOldData %s: consumed containers stay in the list - buffered data grows with the number of steps that pass more than one container'
           % early if looped else
           'UncompressedFile::dropOldData releases at most one container per call while one consumer step (an object or request larger than a '
           'container) passes several: the containers passed in excess stay in the list - buffered data grows with the number of such objects', nontrivial=True)
