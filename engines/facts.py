"""Facts database: configure /repo (compile DB with the real flags), run blfscan over every
library unit in parallel, cache per tree hash, load and merge the per-unit JSON.

Nothing from /repo is executed; cmake only *configures* (generates config.h,
vector_blf_export.h and the compile commands)."""
import hashlib
import json
import os
import shutil
import subprocess
import sys
import time
from concurrent.futures import ThreadPoolExecutor

VERIF = os.path.dirname(os.path.dirname(os.path.abspath(__file__)))
BUILD = os.path.join(VERIF, 'build')
BLFSCAN = os.path.join(BUILD, 'blfscan')
TOOL_SRC = os.path.join(VERIF, 'tools', 'blfscan.cc')


class AnalysisBroken(Exception):
    """exit code 2: the analysis itself cannot be trusted (never a pass, never a violation)"""


def tree_hash(repo):
    h = hashlib.sha256()
    files = []
    for base in ('src', 'cmake'):
        for root, dirs, fs in os.walk(os.path.join(repo, base)):
            dirs.sort()
            if '/tests' in root.replace(repo, ''):
                continue
            for f in sorted(fs):
                if f.endswith(('.cpp', '.h', '.in', '.txt', '.cmake')):
                    files.append(os.path.join(root, f))
    files.append(os.path.join(repo, 'CMakeLists.txt'))
    files.append(TOOL_SRC)
    for p in files:
        try:
            with open(p, 'rb') as fh:
                h.update(p.replace(repo, '').encode())
                h.update(b'\0')
                h.update(fh.read())
                h.update(b'\0')
        except OSError:
            pass
    return h.hexdigest()[:24]


def ensure_tool():
    if os.path.exists(BLFSCAN) and os.path.getmtime(BLFSCAN) >= os.path.getmtime(TOOL_SRC):
        return
    os.makedirs(BUILD, exist_ok=True)
    cxxflags = subprocess.check_output(['llvm-config-14', '--cxxflags'], text=True).split()
    cmd = ['clang++'] + cxxflags + ['-fno-rtti', '-O1', TOOL_SRC, '-o', BLFSCAN + '.tmp',
                                    '/usr/lib/llvm-14/lib/libclang-cpp.so.14', '/usr/lib/llvm-14/lib/libLLVM-14.so']
    r = subprocess.run(cmd, capture_output=True, text=True)
    if r.returncode != 0:
        raise AnalysisBroken('cannot build blfscan: ' + r.stderr[-2000:])
    os.replace(BLFSCAN + '.tmp', BLFSCAN)


def _configure(repo, cfgdir):
    if os.path.isdir(cfgdir):
        shutil.rmtree(cfgdir)
    os.makedirs(cfgdir)
    r = subprocess.run(['cmake', '-G', 'Ninja', '-S', repo, '-B', cfgdir, '-DOPTION_RUN_DOXYGEN=OFF',
                        '-DOPTION_BUILD_TESTS=OFF', '-DOPTION_BUILD_EXAMPLES=OFF'],
                       capture_output=True, text=True)
    if r.returncode != 0:
        raise AnalysisBroken('cmake configure failed: ' + (r.stdout + r.stderr)[-2000:])
    r = subprocess.run(['ninja', '-C', cfgdir, '-t', 'compdb'], capture_output=True, text=True)
    if r.returncode != 0:
        raise AnalysisBroken('ninja -t compdb failed: ' + r.stderr[-2000:])
    db = json.loads(r.stdout)
    units = {}
    srcroot = os.path.join(repo, 'src', 'Vector', 'BLF') + os.sep
    for e in db:
        if ' -c ' not in e['command']:
            continue
        f = e['file']
        if not f.startswith(srcroot) or '/tests/' in f or not f.endswith('.cpp'):
            continue
        units[f] = e  # de-duplicate by file
    if len(units) < 100:
        raise AnalysisBroken('compile database has only %d library units' % len(units))
    out = sorted(units.values(), key=lambda e: e['file'])
    with open(os.path.join(cfgdir, 'compile_commands.json'), 'w') as fh:
        json.dump(out, fh)
    return out


def _scan_one(args):
    cfgdir, src, out, root = args
    r = subprocess.run([BLFSCAN, '-p', cfgdir, '--root=' + root, '--out=' + out, src,
                        '--extra-arg=-UNDEBUG', '--extra-arg=-Wno-everything',
                        '--extra-arg=-resource-dir=/usr/lib/llvm-14/lib/clang/14.0.6'],
                       capture_output=True, text=True)
    return src, r.returncode, (r.stderr or '')[-1500:]


_SCRATCH_REGISTERED = []


def prepare(repo='/repo', verbose=True, base=None, changed=None):
    """returns (cache_dir, info).  cache_dir holds one facts json per unit.
    base/changed (scratch copies only): facts of an already extracted tree `base` = (cache_dir, repo_path) are reused for
    every unit when the variant differs from it only in the .cpp files `changed` (a .cpp is included by no other unit)"""
    t0 = time.time()
    ensure_tool()
    repo = os.path.abspath(repo)
    th = tree_hash(repo)
    scratch = repo != '/repo'
    cache = os.path.join(BUILD, ('cache_scratch_%d' % os.getpid()) if scratch else 'cache', th)
    done = os.path.join(cache, 'DONE.json')
    if scratch and not _SCRATCH_REGISTERED:
        # facts of a scratch copy are private to this process: gone when it ends
        import atexit
        import shutil
        _SCRATCH_REGISTERED.append(1)
        atexit.register(shutil.rmtree, os.path.dirname(cache), True)
    if os.path.exists(done):
        info = json.load(open(done))
        info['cached'] = True
        return cache, info
    # several checks may start on the same tree at once: one extracts, the others wait for it
    import fcntl
    os.makedirs(os.path.dirname(cache), exist_ok=True)
    lock = open(os.path.join(os.path.dirname(cache), '.lock-' + th), 'w')
    fcntl.flock(lock, fcntl.LOCK_EX)
    try:
        return _prepare_locked(repo, th, cache, done, base, changed, t0)
    finally:
        fcntl.flock(lock, fcntl.LOCK_UN)
        lock.close()


def _prepare_locked(repo, th, cache, done, base, changed, t0):
    if os.path.exists(done):
        info = json.load(open(done))
        info['cached'] = True
        return cache, info
    cfgdir = os.path.join(cache, 'cfg')
    os.makedirs(cache, exist_ok=True)
    units = _configure(repo, cfgdir)
    root = os.path.join(repo, 'src')
    jobs = []
    reuse = base is not None and changed is not None and all(c.endswith('.cpp') for c in changed)
    changed_abs = {os.path.join(repo, c) for c in (changed or [])}
    for e in units:
        out = os.path.join(cache, os.path.basename(e['file'])[:-4] + '.json')
        if reuse and e['file'] not in changed_abs:
            src_json = os.path.join(base[0], os.path.basename(out))
            if os.path.exists(src_json):
                with open(src_json) as fh:
                    txt = fh.read()
                with open(out, 'w') as fh:
                    fh.write(txt.replace('"' + base[1].rstrip('/') + '/', '"' + repo.rstrip('/') + '/'))
                continue
        jobs.append((cfgdir, e['file'], out, root))
    failed = []
    with ThreadPoolExecutor(max_workers=min(16, os.cpu_count() or 4)) as ex:
        for src, rc, err in ex.map(_scan_one, jobs):
            if rc != 0:
                failed.append((src, err))
    if failed:
        shutil.rmtree(cache, ignore_errors=True)
        raise AnalysisBroken('blfscan failed on %d unit(s): %s\n%s' % (len(failed), failed[0][0], failed[0][1]))
    info = {'units': len(units), 'tree_hash': th, 'repo': repo, 'scan_s': round(time.time() - t0, 2),
            'flags': units[0]['command'].split(' -o ')[0], 'cached': False}
    with open(done, 'w') as fh:
        json.dump(info, fh)
    # keep the cache small: drop all but the 6 newest trees
    cdir = os.path.dirname(cache)
    olds = sorted((os.path.getmtime(os.path.join(cdir, d)), d) for d in os.listdir(cdir)
                  if os.path.exists(os.path.join(cdir, d, 'DONE.json')))
    for _, d in olds[:-6]:
        shutil.rmtree(os.path.join(cdir, d), ignore_errors=True)
    return cache, info


def _subst_ref_aliases(fn):
    """`ObjectQueue<ObjectHeaderBase> & queue = m_readWriteQueue;  ObjectHeaderBase * const obj = ohb;` - a local reference bound to a member
    of this, and a const pointer copy of a parameter the function never changes, are other names for the same thing: every use is replaced
    by what it names (once, when the facts are loaded), so that all rules see `m_readWriteQueue.write(ohb)`"""
    import copy
    import re
    body = fn.get('body')
    if not isinstance(body, dict):
        return

    def designator(x):
        x = strip_all_casts(x)
        while isinstance(x, dict) and x.get('k') == 'Member' and x.get('dk') == 'field':
            x = strip_all_casts(x.get('base'))
        return isinstance(x, dict) and x.get('k') == 'This'

    def modified(vid):
        for n in walk(body):
            if n.get('k') == 'Bin' and n.get('op') in ('=', '+=', '-=', '*=', '/=', '|=', '&=', '^=') and (strip_all_casts(n['lhs']) or {}).get('id') == vid:
                return True
            if n.get('k') == 'Un' and n.get('op') in ('++', '--', '&') and (strip_all_casts(n['sub']) or {}).get('id') == vid:
                return True
        return False

    aliases = {}
    for n in walk(body):
        if n.get('k') != 'Decl':
            continue
        for v in n.get('vars', []):
            t = (v.get('t') or '').rstrip()
            init = v.get('init')
            if init is None or v.get('static'):
                continue
            x = strip_all_casts(init)
            if not isinstance(x, dict):
                continue
            if t.endswith('&') and not t.endswith('&&') and x.get('k') == 'Member' and designator(x):
                aliases[v['id']] = x
            elif re.search(r'\*\s*const$', t) and x.get('k') == 'Ref' and x.get('dk') == 'parm' and not modified(x.get('id')):
                aliases[v['id']] = x
    if not aliases:
        return

    def tr(n):
        if isinstance(n, list):
            return [tr(i) for i in n]
        if not isinstance(n, dict):
            return n
        if n.get('k') == 'Ref' and n.get('id') in aliases:
            c = copy.deepcopy(aliases[n['id']])
            c['l'] = n.get('l', c.get('l'))
            return c
        if n.get('k') == 'Decl':
            keep = [v for v in n.get('vars', []) if v.get('id') not in aliases]
            if not keep:
                return {'k': 'Compound', 'body': [], 'l': n.get('l')}
            n = dict(n, vars=keep)
        for k in list(n.keys()):
            if isinstance(n[k], (dict, list)):
                n[k] = tr(n[k])
        return n
    fn['body'] = tr(body)


class Facts:
    """merged view over all units"""

    def __init__(self, cache, info):
        self.info = info
        self.records = {}     # qualified name -> record
        self.enums = {}
        self.functions = {}   # qualified name -> [function] (overloads)
        self.units = []
        for fn in sorted(os.listdir(cache)):
            if not fn.endswith('.json') or fn in ('DONE.json',):
                continue
            with open(os.path.join(cache, fn)) as fh:
                tu = json.load(fh)
            self.units.append(tu['main'])
            if tu.get('errors'):
                raise AnalysisBroken('unit with parse errors: ' + tu['main'])
            for r in tu['records']:
                self.records.setdefault(r['name'], r)
            for e in tu['enums']:
                self.enums.setdefault(e['name'], e)
            for f in tu['functions']:
                lst = self.functions.setdefault(f['name'], [])
                if not any(g['sig'] == f['sig'] and g['file'] == f['file'] and g['line'] == f['line'] for g in lst):
                    lst.append(f)
        for lst in self.functions.values():
            for f in lst:
                _subst_ref_aliases(f)
        self.repo = info['repo']
        self._derived = None

    # ---- helpers
    def fn(self, name, sig_contains=None, required=True):
        lst = self.functions.get(name, [])
        if sig_contains is not None:
            lst = [f for f in lst if sig_contains in f['sig']]
        if not lst:
            if required:
                raise AnalysisBroken('anchor function vanished: %s%s' % (name, ' [' + sig_contains + ']' if sig_contains else ''))
            return None
        if len(lst) > 1:
            raise AnalysisBroken('anchor function ambiguous: %s (%d overloads)' % (name, len(lst)))
        return lst[0]

    def rec(self, name, required=True):
        r = self.records.get(name)
        if r is None and required:
            raise AnalysisBroken('anchor class vanished: ' + name)
        return r

    def rel(self, path):
        return path.replace(self.repo + '/', '')

    def all_bases(self, name):
        c = self.__dict__.setdefault('_ab', {})
        if name not in c:
            c[name] = self._all_bases(name)
        return c[name]

    def _all_bases(self, name):
        out = []
        seen = set()
        todo = [name]
        while todo:
            n = todo.pop()
            r = self.records.get(n)
            if not r:
                continue
            for b in r['bases']:
                if b not in seen:
                    seen.add(b)
                    out.append(b)
                    todo.append(b)
        return out

    def derived_from(self, base):
        c = self.__dict__.setdefault('_df', {})
        if base not in c:
            c[base] = sorted(n for n in self.records if base in self.all_bases(n))
        return c[base]

    def field(self, cls, name):
        """look a field up in cls or its bases; returns (owner, field)"""
        for c in [cls] + self.all_bases(cls):
            r = self.records.get(c)
            if not r:
                continue
            for f in r['fields']:
                if f['name'] == name:
                    return c, f
        return None, None

    def method(self, cls, simple, const=None):
        """resolve a method by simple name in cls, walking up the bases (most derived first)"""
        for c in [cls] + self.all_bases(cls):
            lst = self.functions.get(c + '::' + simple, [])
            if lst:
                return lst
        return []


def load(repo='/repo', base=None, changed=None):
    cache, info = prepare(repo, base=base, changed=changed)
    f = Facts(cache, info)
    f.cache_dir = cache
    return f


# ---- generic tree walking helpers used by all engines

CHILD_KEYS = ('body', 'cond', 'then', 'else', 'init', 'inc', 'range', 'sub', 'value', 'lhs', 'rhs', 'base', 'idx',
              'obj', 'e', 'arg', 'calleeExpr')
LIST_KEYS = ('args', 'elems', 'children', 'vars', 'handlers')


def children(n):
    if not isinstance(n, dict):
        return
    for k in CHILD_KEYS:
        v = n.get(k)
        if isinstance(v, dict):
            yield v
        elif isinstance(v, list):
            for x in v:
                if isinstance(x, dict):
                    yield x
    for k in LIST_KEYS:
        v = n.get(k)
        if isinstance(v, list):
            for x in v:
                if isinstance(x, dict):
                    yield x


def walk(n, into_lambda=True):
    """pre-order over all nodes"""
    if not isinstance(n, dict):
        return
    yield n
    if n.get('k') == 'Lambda' and not into_lambda:
        return
    for c in children(n):
        yield from walk(c, into_lambda)


def strip(e):
    """strip implicit casts and explicit value-preserving wrappers that rules do not care about"""
    while isinstance(e, dict) and e.get('k') == 'Cast' and e.get('style') == 'implicit':
        e = e['sub']
    return e


def strip_all_casts(e):
    while isinstance(e, dict) and e.get('k') == 'Cast':
        e = e['sub']
    return e


def is_this(e):
    e = strip_all_casts(e)
    return isinstance(e, dict) and e.get('k') == 'This'


def member_path(e):
    """a.b.c rooted at this -> ('a','b','c'); rooted at a local/param -> ('$name', ...) ; else None"""
    e = strip_all_casts(e)
    if not isinstance(e, dict):
        return None
    if e.get('k') == 'Un' and e.get('op') == '*':
        return member_path(e['sub'])
    if e.get('k') == 'This':
        return ()
    if e.get('k') == 'Ref' and e.get('dk') in ('local', 'parm'):
        return ('$' + e['name'],)
    if e.get('k') == 'Member' and e.get('dk') == 'field':
        b = member_path(e['base'])
        if b is None:
            return None
        return b + (e['name'],)
    return None


def fmt_path(p):
    return '.'.join(p) if p else 'this'


if __name__ == '__main__':
    t = time.time()
    f = load(sys.argv[1] if len(sys.argv) > 1 else '/repo')
    print(json.dumps(f.info), len(f.records), 'records', sum(len(v) for v in f.functions.values()), 'functions',
          round(time.time() - t, 2), 's')
