"""Facts database: configure /repo (compile DB with the real flags), run blfscan over every
library unit in parallel, cache per tree hash, load and merge the per-unit JSON.

Nothing from /repo is executed; cmake only *configures* (generates config.h,
vector_blf_export.h and the compile commands)."""
import hashlib
import json
import os
import shutil
import subprocess
import sys
import time
from concurrent.futures import ThreadPoolExecutor

VERIF = os.path.dirname(os.path.dirname(os.path.abspath(__file__)))
BUILD = os.path.join(VERIF, 'build')
BLFSCAN = os.path.join(BUILD, 'blfscan')
TOOL_SRC = os.path.join(VERIF, 'tools', 'blfscan.cc')


class AnalysisBroken(Exception):
    """exit code 2: the analysis itself cannot be trusted (never a pass, never a violation)"""


def tree_hash(repo):
    h = hashlib.sha256()
    files = []
    for base in ('src', 'cmake'):
        for root, dirs, fs in os.walk(os.path.join(repo, base)):
            dirs.sort()
            if '/tests' in root.replace(repo, ''):
                continue
            for f in sorted(fs):
                if f.endswith(('.cpp', '.h', '.in', '.txt', '.cmake')):
                    files.append(os.path.join(root, f))
    files.append(os.path.join(repo, 'CMakeLists.txt'))
    files.append(TOOL_SRC)
    for p in files:
        try:
            with open(p, 'rb') as fh:
                h.update(p.replace(repo, '').encode())
                h.update(b'\0')
                h.update(fh.read())
                h.update(b'\0')
        except OSError:
            pass
    return h.hexdigest()[:24]


def ensure_tool():
    if os.path.exists(BLFSCAN) and os.path.getmtime(BLFSCAN) >= os.path.getmtime(TOOL_SRC):
        return
    os.makedirs(BUILD, exist_ok=True)
    cxxflags = subprocess.check_output(['llvm-config-14', '--cxxflags'], text=True).split()
    cmd = ['clang++'] + cxxflags + ['-fno-rtti', '-O1', TOOL_SRC, '-o', BLFSCAN + '.tmp',
                                    '/usr/lib/llvm-14/lib/libclang-cpp.so.14', '/usr/lib/llvm-14/lib/libLLVM-14.so']
    r = subprocess.run(cmd, capture_output=True, text=True)
    if r.returncode != 0:
        raise AnalysisBroken('cannot build blfscan: ' + r.stderr[-2000:])
    os.replace(BLFSCAN + '.tmp', BLFSCAN)


def _configure(repo, cfgdir):
    if os.path.isdir(cfgdir):
        shutil.rmtree(cfgdir)
    os.makedirs(cfgdir)
    r = subprocess.run(['cmake', '-G', 'Ninja', '-S', repo, '-B', cfgdir, '-DOPTION_RUN_DOXYGEN=OFF',
                        '-DOPTION_BUILD_TESTS=OFF', '-DOPTION_BUILD_EXAMPLES=OFF'],
                       capture_output=True, text=True)
    if r.returncode != 0:
        raise AnalysisBroken('cmake configure failed: ' + (r.stdout + r.stderr)[-2000:])
    r = subprocess.run(['ninja', '-C', cfgdir, '-t', 'compdb'], capture_output=True, text=True)
    if r.returncode != 0:
        raise AnalysisBroken('ninja -t compdb failed: ' + r.stderr[-2000:])
    db = json.loads(r.stdout)
    units = {}
    srcroot = os.path.join(repo, 'src', 'Vector', 'BLF') + os.sep
    for e in db:
        if ' -c ' not in e['command']:
            continue
        f = e['file']
        if not f.startswith(srcroot) or '/tests/' in f or not f.endswith('.cpp'):
            continue
        units[f] = e  # de-duplicate by file
    if len(units) < 100:
        raise AnalysisBroken('compile database has only %d library units' % len(units))
    out = sorted(units.values(), key=lambda e: e['file'])
    with open(os.path.join(cfgdir, 'compile_commands.json'), 'w') as fh:
        json.dump(out, fh)
    return out


def _scan_one(args):
    cfgdir, src, out, root = args
    r = subprocess.run([BLFSCAN, '-p', cfgdir, '--root=' + root, '--out=' + out, src,
                        '--extra-arg=-UNDEBUG', '--extra-arg=-Wno-everything',
                        '--extra-arg=-resource-dir=/usr/lib/llvm-14/lib/clang/14.0.6'],
                       capture_output=True, text=True)
    return src, r.returncode, (r.stderr or '')[-1500:]


_SCRATCH_REGISTERED = []


def prepare(repo='/repo', verbose=True, base=None, changed=None):
    """returns (cache_dir, info).  cache_dir holds one facts json per unit.
    base/changed (scratch copies only): facts of an already extracted tree `base` = (cache_dir, repo_path) are reused for
    every unit when the variant differs from it only in the .cpp files `changed` (a .cpp is included by no other unit)"""
    t0 = time.time()
    ensure_tool()
    repo = os.path.abspath(repo)
    th = tree_hash(repo)
    scratch = repo != '/repo'
    cache = os.path.join(BUILD, ('cache_scratch_%d' % os.getpid()) if scratch else 'cache', th)
    done = os.path.join(cache, 'DONE.json')
    if scratch and not _SCRATCH_REGISTERED:
        # facts of a scratch copy are private to this process: gone when it ends
        import atexit
        import shutil
        _SCRATCH_REGISTERED.append(1)
        atexit.register(shutil.rmtree, os.path.dirname(cache), True)
    if os.path.exists(done):
        info = json.load(open(done))
        info['cached'] = True
        return cache, info
    # several checks may start on the same tree at once: one extracts, the others wait for it
    import fcntl
    os.makedirs(os.path.dirname(cache), exist_ok=True)
    lock = open(os.path.join(os.path.dirname(cache), '.lock-' + th), 'w')
    fcntl.flock(lock, fcntl.LOCK_EX)
    try:
        return _prepare_locked(repo, th, cache, done, base, changed, t0)
    finally:
        fcntl.flock(lock, fcntl.LOCK_UN)
        lock.close()


def _prepare_locked(repo, th, cache, done, base, changed, t0):
    if os.path.exists(done):
        info = json.load(open(done))
        info['cached'] = True
        return cache, info
    cfgdir = os.path.join(cache, 'cfg')
    os.makedirs(cache, exist_ok=True)
    units = _configure(repo, cfgdir)
    root = os.path.join(repo, 'src')
    jobs = []
    reuse = base is not None and changed is not None and all(c.endswith('.cpp') for c in changed)
    changed_abs = {os.path.join(repo, c) for c in (changed or [])}
    for e in units:
        out = os.path.join(cache, os.path.basename(e['file'])[:-4] + '.json')
        if reuse and e['file'] not in changed_abs:
            src_json = os.path.join(base[0], os.path.basename(out))
            if os.path.exists(src_json):
                with open(src_json) as fh:
                    txt = fh.read()
                with open(out, 'w') as fh:
                    fh.write(txt.replace('"' + base[1].rstrip('/') + '/', '"' + repo.rstrip('/') + '/'))
                continue
        jobs.append((cfgdir, e['file'], out, root))
    failed = []
    with ThreadPoolExecutor(max_workers=min(16, os.cpu_count() or 4)) as ex:
        for src, rc, err in ex.map(_scan_one, jobs):
            if rc != 0:
                failed.append((src, err))
    if failed:
        shutil.rmtree(cache, ignore_errors=True)
        raise AnalysisBroken('blfscan failed on %d unit(s): %s\n%s' % (len(failed), failed[0][0], failed[0][1]))
    info = {'units': len(units), 'tree_hash': th, 'repo': repo, 'scan_s': round(time.time() - t0, 2),
            'flags': units[0]['command'].split(' -o ')[0], 'cached': False}
    with open(done, 'w') as fh:
        json.dump(info, fh)
    # keep the cache small: drop all but the 6 newest trees
    cdir = os.path.dirname(cache)
    olds = sorted((os.path.getmtime(os.path.join(cdir, d)), d) for d in os.listdir(cdir)
                  if os.path.exists(os.path.join(cdir, d, 'DONE.json')))
    for _, d in olds[:-6]:
        shutil.rmtree(os.path.join(cdir, d), ignore_errors=True)
    return cache, info


def _subst_accessors(F):
    """std::fstream & stream() { return m_file; } - a non-virtual method that only returns a reference to a member of this is another name
    for the member: calls on this are replaced by the member (once, when the facts are loaded)"""
    import copy
    acc = {}
    for q, lst in F.functions.items():
        for f in lst:
            body = f.get('body')
            if not isinstance(body, dict) or f.get('params') or f.get('virtual') or not (f.get('ret') or '').rstrip().endswith('&'):
                continue
            stm = body.get('body', []) if body.get('k') == 'Compound' else [body]
            if len(stm) != 1 or not isinstance(stm[0], dict) or stm[0].get('k') != 'Return' or stm[0].get('value') is None:
                continue
            v = strip_all_casts(stm[0]['value'])
            x = v
            while isinstance(x, dict) and x.get('k') == 'Member' and x.get('dk') == 'field':
                x = strip_all_casts(x.get('base'))
            if isinstance(v, dict) and v.get('k') == 'Member' and isinstance(x, dict) and x.get('k') == 'This':
                acc[(q, f['sig'])] = v
                f['accessor'] = True
    if not acc:
        return

    def tr(n):
        if isinstance(n, list):
            return [tr(i) for i in n]
        if not isinstance(n, dict):
            return n
        for k in list(n.keys()):
            if isinstance(n[k], (dict, list)):
                n[k] = tr(n[k])
        if n.get('k') == 'Call' and n.get('ck') == 'member' and (n.get('callee'), n.get('csig')) in acc and not n.get('args'):
            o = strip_all_casts(n.get('obj')) if n.get('obj') is not None else None
            if o is None or (isinstance(o, dict) and o.get('k') == 'This'):
                c = copy.deepcopy(acc[(n['callee'], n['csig'])])
                c['l'] = n.get('l', c.get('l'))
                return c
        return n
    for lst in F.functions.values():
        for f in lst:
            if isinstance(f.get('body'), dict):
                f['body'] = tr(f['body'])


def _subst_ref_aliases(fn):
    """`ObjectQueue<ObjectHeaderBase> & queue = m_readWriteQueue;  ObjectHeaderBase * const obj = ohb;` - a local reference bound to a member
    of this, and a const pointer copy of a parameter the function never changes, are other names for the same thing: every use is replaced
    by what it names (once, when the facts are loaded), so that all rules see `m_readWriteQueue.write(ohb)`"""
    import copy
    import re
    body = fn.get('body')
    if not isinstance(body, dict):
        return

    def designator(x):
        x = strip_all_casts(x)
        while isinstance(x, dict) and x.get('k') == 'Member' and x.get('dk') == 'field':
            x = strip_all_casts(x.get('base'))
        return isinstance(x, dict) and x.get('k') == 'This'

    def modified(vid):
        for n in walk(body):
            if n.get('k') == 'Bin' and n.get('op') in ('=', '+=', '-=', '*=', '/=', '|=', '&=', '^=') and (strip_all_casts(n['lhs']) or {}).get('id') == vid:
                return True
            if n.get('k') == 'Un' and n.get('op') in ('++', '--', '&') and (strip_all_casts(n['sub']) or {}).get('id') == vid:
                return True
        return False

    aliases = {}
    for n in walk(body):
        if n.get('k') != 'Decl':
            continue
        for v in n.get('vars', []):
            t = (v.get('t') or '').rstrip()
            init = v.get('init')
            if init is None or v.get('static'):
                continue
            x = strip_all_casts(init)
            if not isinstance(x, dict):
                continue
            if t.endswith('&') and not t.endswith('&&') and x.get('k') == 'Member' and designator(x):
                aliases[v['id']] = x
            elif re.search(r'\*\s*const$', t) and x.get('k') == 'Ref' and x.get('dk') == 'parm' and not modified(x.get('id')):
                aliases[v['id']] = x
    if not aliases:
        return

    def tr(n):
        if isinstance(n, list):
            return [tr(i) for i in n]
        if not isinstance(n, dict):
            return n
        if n.get('k') == 'Ref' and n.get('id') in aliases:
            c = copy.deepcopy(aliases[n['id']])
            c['l'] = n.get('l', c.get('l'))
            return c
        if n.get('k') == 'Decl':
            keep = [v for v in n.get('vars', []) if v.get('id') not in aliases]
            if not keep:
                return {'k': 'Compound', 'body': [], 'l': n.get('l')}
            n = dict(n, vars=keep)
        for k in list(n.keys()):
            if isinstance(n[k], (dict, list)):
                n[k] = tr(n[k])
        return n
    fn['body'] = tr(body)


_FILE_CLS = 'Vector::BLF::File'


def _canonical_members(F):
    """The rules name the private state of the pipeline classes (m_tellg, m_fileSize, m_data, ...).  Those names are not part of any
    interface: a maintainer may rename them.  Each such member is therefore *found by its role* - the field tellg() returns, the field
    setBufferSize() stores its parameter in, the std::list of containers, the one mutex - and, where today's spelling differs from the name
    the rules use, every occurrence in the facts is renamed to the canonical name once, at load.  Returns {class: {actual: canonical}}.
    A role that cannot be found is left alone: the anchor check (core.check_anchors) then reports the missing member as analysis-broken."""
    out = {}
    frec = F.records.get(_FILE_CLS)
    if not frec:
        return out

    def by_type(rec, pred):
        c = [f for f in rec['fields'] if pred((f.get('t') or '').replace('const ', ''))]
        return c[0]['name'] if len(c) == 1 else None

    def methods(cls, simple):
        return [f for lst in F.functions.values() for f in lst if f.get('class') == cls and f.get('simple') == simple and f.get('body')]

    def own_field(cls, e):
        e = strip_all_casts(e)
        while isinstance(e, dict) and e.get('k') in ('Construct',) and len(e.get('args', [])) == 1:
            e = strip_all_casts(e['args'][0])
        if isinstance(e, dict) and e.get('k') == 'Member' and e.get('dk') == 'field':
            b = strip_all_casts(e.get('base'))
            if isinstance(b, dict) and b.get('k') == 'This':
                return e['name']
        return None

    def returned(cls, simple):
        names = set()
        for m in methods(cls, simple):
            if m.get('params'):
                continue
            for r in walk(m['body'], into_lambda=False):
                if r.get('k') == 'Return' and r.get('value') is not None:
                    n = own_field(cls, r['value'])
                    if n:
                        names.add(n)
        return names.pop() if len(names) == 1 else None

    def stored_param(cls, simple):
        names = set()
        for m in methods(cls, simple):
            pids = {p_['id'] for p_ in m.get('params', [])}
            if len(pids) != 1:
                continue
            for n in walk(m['body'], into_lambda=False):
                if n.get('k') == 'Bin' and n.get('op') == '=':
                    r = strip_all_casts(n['rhs'])
                    if isinstance(r, dict) and r.get('k') == 'Ref' and r.get('id') in pids and own_field(cls, n['lhs']):
                        names.add(own_field(cls, n['lhs']))
        return names.pop() if len(names) == 1 else None

    def set_true(cls, simple):
        names = set()
        for m in methods(cls, simple):
            for n in walk(m['body'], into_lambda=False):
                if n.get('k') == 'Bin' and n.get('op') == '=' and (strip_all_casts(n['rhs']) or {}).get('v') == 1 and own_field(cls, n['lhs']):
                    names.add(own_field(cls, n['lhs']))
        return names.pop() if len(names) == 1 else None

    want = {_FILE_CLS: {}}
    stage = {}
    for canon, pred in (('m_readWriteQueue', lambda t: 'ObjectQueue<' in t and '*' not in t and '&' not in t),
                        ('m_uncompressedFile', lambda t: t.endswith('::UncompressedFile') or t == 'UncompressedFile'),
                        ('m_compressedFile', lambda t: t.endswith('::CompressedFile') or t == 'CompressedFile'),
                        ('m_openMode', lambda t: t.lower().endswith('openmode'))):
        a = by_type(frec, pred)
        if a:
            want[_FILE_CLS][a] = canon
            if canon != 'm_openMode':
                stage[canon] = [f['t'] for f in frec['fields'] if f['name'] == a][0]
    for canon, cls in stage.items():
        rec = F.records.get(cls)
        if not rec:
            continue
        w = want.setdefault(cls, {})

        def put(actual, name):
            if actual and actual not in w and name not in w.values():
                w[actual] = name
        put(by_type(rec, lambda t: t == 'std::mutex'), 'm_mutex')
        put(by_type(rec, lambda t: t.lower().endswith('iostate')), 'm_rdstate')
        if canon == 'm_compressedFile':
            put(by_type(rec, lambda t: 'fstream' in t), 'm_file')
            continue
        put(returned(cls, 'tellg'), 'm_tellg')
        put(returned(cls, 'tellp'), 'm_tellp')
        put(stored_param(cls, 'setFileSize'), 'm_fileSize')
        put(stored_param(cls, 'setBufferSize'), 'm_bufferSize')
        put(set_true(cls, 'abort'), 'm_abort')
        if canon == 'm_readWriteQueue':
            put(by_type(rec, lambda t: t.startswith('std::queue<')), 'm_queue')
        else:
            put(by_type(rec, lambda t: t.startswith('std::list<')), 'm_data')
            put(returned(cls, 'gcount'), 'm_gcount')
            put(returned(cls, 'defaultLogContainerSize'), 'm_defaultLogContainerSize')
    # rename where the spelling differs; never onto a name another member of the class already carries
    for cls, w in want.items():
        rec = F.records.get(cls)
        have = {f['name'] for f in rec['fields']}
        ren = {a: c for a, c in w.items() if a != c and c not in have}
        if not ren:
            continue
        out[cls] = ren
        for f in rec['fields']:
            if f['name'] in ren:
                f['name'] = ren[f['name']]
        for lst in F.functions.values():
            for fn in lst:
                if fn.get('class') == cls:
                    for i in fn.get('inits', []) or []:
                        if i.get('kind') == 'member' and i.get('name') in ren:
                            i['name'] = ren[i['name']]
                if not fn.get('body'):
                    continue
                for n in walk(fn['body']):
                    if n.get('k') == 'Member' and n.get('dk') == 'field' and n.get('owner') == cls and n.get('name') in ren:
                        n['name'] = ren[n['name']]
                    elif n.get('k') == 'DefaultInit' and n.get('field') in ren and cls in (n.get('t') or cls):
                        pass
    _canonical_file_functions(F, out)
    return out


def _rename_function(F, cls, old, new):
    oq, nq = cls + '::' + old, cls + '::' + new
    if nq in F.functions or oq not in F.functions:
        return False
    lst = F.functions.pop(oq)
    for f in lst:
        f['name'] = nq
        f['simple'] = new
    F.functions[nq] = lst
    rec = F.records.get(cls)
    for m in (rec or {}).get('methods', []):
        if m.get('name') == old:
            m['name'] = new
            m['qname'] = nq
    for fl in F.functions.values():
        for fn in fl:
            if not fn.get('body'):
                continue
            for n in walk(fn['body']):
                if n.get('k') == 'Call' and n.get('callee') == oq:
                    n['callee'] = nq
                    n['fn'] = new
                elif n.get('k') in ('Ref', 'Member') and n.get('q') == oq:
                    n['q'] = nq
                    n['name'] = new
                elif n.get('k') == 'Member' and n.get('dk') == 'method' and n.get('name') == old and (n.get('owner') in (None, cls)):
                    n['name'] = new
    return True


def _canonical_file_functions(F, out):
    """the private transfer functions of File, its four thread entry functions, the thread members and their loop flags / exception slots,
    found by what they do (which stage they take from and which they hand to) and renamed to the names the rules use"""
    cls = _FILE_CLS
    rec = F.records.get(cls)
    if not rec:
        return

    def stage_calls(fn):
        res = set()
        for n in walk(fn['body']):
            if n.get('k') != 'Call':
                continue
            p = member_path(n.get('obj')) if n.get('obj') is not None else None
            root = (p[1] if p and p[0].startswith('$') and len(p) > 1 else p[0]) if p else None
            if root in ('m_readWriteQueue', 'm_uncompressedFile', 'm_compressedFile'):
                res.add((root, n.get('fn')))
            for a in n.get('args', []):
                pa = member_path(a)
                ra = (pa[1] if pa and pa[0].startswith('$') and len(pa) > 1 else pa[0]) if pa else None
                if ra in ('m_uncompressedFile', 'm_compressedFile'):
                    res.add(('arg:' + ra, n.get('fn')))
        return res

    priv = [f for lst in F.functions.values() for f in lst if f.get('class') == cls and f.get('body') and f.get('access') == 2 and not f.get('params')]
    cat = {}
    for f in priv:
        sc = stage_calls(f)
        if ('m_readWriteQueue', 'write') in sc and ('arg:m_uncompressedFile', 'read') in sc:
            cat.setdefault('uncompressedFile2ReadWriteQueue', []).append(f)
        elif ('m_readWriteQueue', 'read') in sc and ('arg:m_uncompressedFile', 'write') in sc:
            cat.setdefault('readWriteQueue2UncompressedFile', []).append(f)
        elif ('arg:m_compressedFile', 'write') in sc and ('m_uncompressedFile', 'read') in sc and not any(r == 'm_readWriteQueue' for r, _ in sc):
            cat.setdefault('uncompressedFile2CompressedFile', []).append(f)
        elif ('arg:m_compressedFile', 'read') in sc and ('m_uncompressedFile', 'write') in sc and not any(r == 'm_readWriteQueue' for r, _ in sc):
            cat.setdefault('compressedFile2UncompressedFile', []).append(f)
    ren = out.setdefault(cls, {})
    for canon, fs in cat.items():
        old_ = fs[0]['simple'] if len(fs) == 1 else None
        if old_ and old_ != canon and _rename_function(F, cls, old_, canon):
            ren[old_ + '()'] = canon + '()'
    # thread entries: static functions of File handed to std::thread, named after the transfer function they drive
    entry_of = {'uncompressedFile2ReadWriteQueue': 'uncompressedFileReadThread', 'compressedFile2UncompressedFile': 'compressedFileReadThread',
                'readWriteQueue2UncompressedFile': 'uncompressedFileWriteThread', 'uncompressedFile2CompressedFile': 'compressedFileWriteThread'}
    statics = [f for lst in F.functions.values() for f in lst if f.get('class') == cls and f.get('body') and len(f.get('params', [])) == 1 and
               (f['params'][0].get('t') or '').replace(' ', '').endswith('File*')]
    fieldren = {}
    for f in statics:
        drives = {n.get('fn') for n in walk(f['body']) if n.get('k') == 'Call' and n.get('fn') in entry_of}
        if len(drives) != 1:
            continue
        canon = entry_of[drives.pop()]
        stage = 'm_uncompressedFileThread' if canon.startswith('uncompressedFile') else 'm_compressedFileThread'
        for n in walk(f['body']):
            if n.get('k') == 'Member' and n.get('dk') == 'field' and n.get('owner') == cls:
                t = n.get('t') or ''
                if 'atomic<bool>' in t:
                    fieldren.setdefault(n['name'], set()).add(stage + 'Running')
                elif 'exception_ptr' in t:
                    fieldren.setdefault(n['name'], set()).add(stage + 'Exception')
        old = f['simple']
        if old != canon and _rename_function(F, cls, old, canon):
            ren[old + '()'] = canon + '()'
    # thread members: by the entry they are started with in open()
    for lst in list(F.functions.values()):
        for fn in lst:
            if fn.get('class') != cls or fn.get('simple') != 'open' or not fn.get('body'):
                continue
            for n in walk(fn['body']):
                if n.get('k') == 'Call' and n.get('ck') == 'operator' and n.get('op') == '=' and (n.get('cls') or '').startswith('std::thread') and len(n.get('args', [])) == 2:
                    lhs = strip_all_casts(n['args'][0])
                    ents = {x.get('name') for x in walk(n['args'][1]) if x.get('k') == 'Ref' and x.get('name') in entry_of.values()}
                    if isinstance(lhs, dict) and lhs.get('k') == 'Member' and len(ents) == 1:
                        e = ents.pop()
                        fieldren.setdefault(lhs['name'], set()).add('m_uncompressedFileThread' if e.startswith('uncompressedFile') else 'm_compressedFileThread')
    have = {f['name'] for f in rec['fields']}
    fr = {a: list(c)[0] for a, c in fieldren.items() if len(c) == 1 and a != list(c)[0] and list(c)[0] not in have}
    if len(set(fr.values())) != len(fr):
        fr = {}
    for f in rec['fields']:
        if f['name'] in fr:
            f['name'] = fr[f['name']]
    if fr:
        for fl in F.functions.values():
            for fn in fl:
                if fn.get('class') == cls:
                    for i in fn.get('inits', []) or []:
                        if i.get('kind') == 'member' and i.get('name') in fr:
                            i['name'] = fr[i['name']]
                if fn.get('body'):
                    for n in walk(fn['body']):
                        if n.get('k') == 'Member' and n.get('dk') == 'field' and n.get('owner') == cls and n.get('name') in fr:
                            n['name'] = fr[n['name']]
        ren.update(fr)
    if not ren:
        out.pop(cls, None)


class Facts:
    """merged view over all units"""

    def __init__(self, cache, info):
        self.info = info
        self.records = {}     # qualified name -> record
        self.enums = {}
        self.functions = {}   # qualified name -> [function] (overloads)
        self.units = []
        for fn in sorted(os.listdir(cache)):
            if not fn.endswith('.json') or fn in ('DONE.json',):
                continue
            with open(os.path.join(cache, fn)) as fh:
                tu = json.load(fh)
            self.units.append(tu['main'])
            if tu.get('errors'):
                raise AnalysisBroken('unit with parse errors: ' + tu['main'])
            for r in tu['records']:
                self.records.setdefault(r['name'], r)
            for e in tu['enums']:
                self.enums.setdefault(e['name'], e)
            for f in tu['functions']:
                lst = self.functions.setdefault(f['name'], [])
                if not any(g['sig'] == f['sig'] and g['file'] == f['file'] and g['line'] == f['line'] for g in lst):
                    lst.append(f)
        _subst_accessors(self)
        for lst in self.functions.values():
            for f in lst:
                _subst_ref_aliases(f)
        self.renamed = _canonical_members(self)
        self.repo = info['repo']
        self._derived = None

    # ---- helpers
    def fn(self, name, sig_contains=None, required=True):
        lst = self.functions.get(name, [])
        if sig_contains is not None:
            lst = [f for f in lst if sig_contains in f['sig']]
        if not lst:
            if required:
                raise AnalysisBroken('anchor function vanished: %s%s' % (name, ' [' + sig_contains + ']' if sig_contains else ''))
            return None
        if len(lst) > 1:
            raise AnalysisBroken('anchor function ambiguous: %s (%d overloads)' % (name, len(lst)))
        return lst[0]

    def rec(self, name, required=True):
        r = self.records.get(name)
        if r is None and required:
            raise AnalysisBroken('anchor class vanished: ' + name)
        return r

    def rel(self, path):
        return path.replace(self.repo + '/', '')

    def all_bases(self, name):
        c = self.__dict__.setdefault('_ab', {})
        if name not in c:
            c[name] = self._all_bases(name)
        return c[name]

    def _all_bases(self, name):
        out = []
        seen = set()
        todo = [name]
        while todo:
            n = todo.pop()
            r = self.records.get(n)
            if not r:
                continue
            for b in r['bases']:
                if b not in seen:
                    seen.add(b)
                    out.append(b)
                    todo.append(b)
        return out

    def derived_from(self, base):
        c = self.__dict__.setdefault('_df', {})
        if base not in c:
            c[base] = sorted(n for n in self.records if base in self.all_bases(n))
        return c[base]

    def field(self, cls, name):
        """look a field up in cls or its bases; returns (owner, field)"""
        for c in [cls] + self.all_bases(cls):
            r = self.records.get(c)
            if not r:
                continue
            for f in r['fields']:
                if f['name'] == name:
                    return c, f
        return None, None

    def method(self, cls, simple, const=None):
        """resolve a method by simple name in cls, walking up the bases (most derived first)"""
        for c in [cls] + self.all_bases(cls):
            lst = self.functions.get(c + '::' + simple, [])
            if lst:
                return lst
        return []


def load(repo='/repo', base=None, changed=None):
    cache, info = prepare(repo, base=base, changed=changed)
    f = Facts(cache, info)
    f.cache_dir = cache
    return f


# ---- generic tree walking helpers used by all engines

CHILD_KEYS = ('body', 'cond', 'then', 'else', 'init', 'inc', 'range', 'sub', 'value', 'lhs', 'rhs', 'base', 'idx',
              'obj', 'e', 'arg', 'calleeExpr')
LIST_KEYS = ('args', 'elems', 'children', 'vars', 'handlers')


def children(n):
    if not isinstance(n, dict):
        return
    for k in CHILD_KEYS:
        v = n.get(k)
        if isinstance(v, dict):
            yield v
        elif isinstance(v, list):
            for x in v:
                if isinstance(x, dict):
                    yield x
    for k in LIST_KEYS:
        v = n.get(k)
        if isinstance(v, list):
            for x in v:
                if isinstance(x, dict):
                    yield x


def walk(n, into_lambda=True):
    """pre-order over all nodes"""
    if not isinstance(n, dict):
        return
    yield n
    if n.get('k') == 'Lambda' and not into_lambda:
        return
    for c in children(n):
        yield from walk(c, into_lambda)


def strip(e):
    """strip implicit casts and explicit value-preserving wrappers that rules do not care about"""
    while isinstance(e, dict) and e.get('k') == 'Cast' and e.get('style') == 'implicit':
        e = e['sub']
    return e


def strip_all_casts(e):
    while isinstance(e, dict) and e.get('k') == 'Cast':
        e = e['sub']
    return e


def is_this(e):
    e = strip_all_casts(e)
    return isinstance(e, dict) and e.get('k') == 'This'


def member_path(e):
    """a.b.c rooted at this -> ('a','b','c'); rooted at a local/param -> ('$name', ...) ; else None"""
    e = strip_all_casts(e)
    if not isinstance(e, dict):
        return None
    if e.get('k') == 'Un' and e.get('op') == '*':
        return member_path(e['sub'])
    if e.get('k') == 'This':
        return ()
    if e.get('k') == 'Ref' and e.get('dk') in ('local', 'parm'):
        return ('$' + e['name'],)
    if e.get('k') == 'Member' and e.get('dk') == 'field':
        b = member_path(e['base'])
        if b is None:
            return None
        return b + (e['name'],)
    return None


def fmt_path(p):
    return '.'.join(p) if p else 'this'


if __name__ == '__main__':
    t = time.time()
    f = load(sys.argv[1] if len(sys.argv) > 1 else '/repo')
    print(json.dumps(f.info), len(f.records), 'records', sum(len(v) for v in f.functions.values()), 'functions',
          round(time.time() - t, 2), 's')
