"""A1-A4: call graph, effect summaries, thread roles, per-function path enumeration.

Paths are enumerated over the structured statement tree (the library has no goto; its
presence is AnalysisBroken).  A path is a list of events in execution order:

  {'ev':'call',   'n':node, 'l':line}          every call / construct / new / delete
  {'ev':'branch', 'n':cond, 'taken':bool}      a decision of if / while / switch-case
  {'ev':'assign', 'n':node}
  {'ev':'return', 'n':node} | {'ev':'throw', 'n':node, 'eff':effect}
  {'ev':'catch',  'type':str}                  entry of a handler
  {'ev':'decl',   'var':var}
  {'ev':'scope_end', 'ids':[..]}               locals of a compound go out of scope

and ends with an outcome: 'normal' | 'return' | ('throw', effect).  Loops are unrolled 0, 1
and 2 times (the rules are must-pass / no-use-after / exactly-once rules, for which two
iterations expose every ordering of loop-carried events).  Exceptional edges leave every
call whose callee may throw (effect summaries A3) towards the innermost handler that can
catch the effect.
"""
from facts import AnalysisBroken, walk, strip, strip_all_casts, member_path, children

MAX_PATHS = 6000
BLF_EXC = 'Vector::BLF::Exception'

# ---- A3 effect table for callees outside /repo/src: (class-or-namespace prefix, method) -> effects
# one line of reason each
NOTHROW_METHODS = {
    # std::mutex / locks / condition variables: lock failures are not modelled (DESIGN A3)
    'lock', 'unlock', 'notify_all', 'notify_one', 'wait', 'joinable', 'join',
    # observers
    'size', 'empty', 'data', 'front', 'back', 'begin', 'end', 'cbegin', 'cend', 'get', 'c_str', 'length',
    # iostream with default exception mask never throws
    'read', 'write', 'seekg', 'seekp', 'tellg', 'tellp', 'good', 'eof', 'gcount', 'is_open', 'close', 'open', 'fail',
    # removing elements does not allocate
    'pop', 'pop_front', 'pop_back', 'clear',
    # atomics
    'load', 'store', 'exchange',
}
ALLOC_METHODS = {'resize', 'push_back', 'push', 'emplace_back', 'emplace', 'reserve', 'assign', 'append', 'insert', 'push_front'}
NOTHROW_FUNCTIONS = {'std::min', 'std::max', 'std::copy', 'std::find_if', 'uncompress', 'compress2', 'compressBound', 'std::move',
                     'std::current_exception', 'std::memcpy', 'std::memset', 'memcpy', 'memset', 'std::endl', 'std::forward'}
ALLOC_FUNCTIONS = {'std::make_shared', 'std::to_string'}
OTHER_FUNCTIONS = {'std::rethrow_exception'}


class Flow:
    def __init__(self, F):
        self.F = F
        self._eff = None
        self.overriders = {}
        self._build_overriders()

    # ------------------------------------------------------------------ callee resolution
    def _build_overriders(self):
        """method qualified name -> list of functions overriding it (transitively), incl. itself if defined"""
        F = self.F
        by_class = {}
        for name, fns in F.functions.items():
            for f in fns:
                if f.get('kind') == 'method' and f.get('virtual'):
                    by_class.setdefault(f['class'], []).append(f)
        self._virt_by_class = by_class

    def resolve(self, call, beta=None):
        """-> list of candidate callee function dicts inside /repo/src for a call node.
        beta: concrete class bound to the AbstractFile& parameter of the enclosing function"""
        F = self.F
        if not call.get('calleeInRoot'):
            return []
        ck = (id(call), beta)
        rc = self.__dict__.setdefault('_rcache', {})
        if ck in rc:
            return rc[ck]
        r = self._resolve(call, beta)
        rc[ck] = r
        return r

    def _resolve(self, call, beta=None):
        F = self.F
        name = call.get('callee')
        fns = [f for f in F.functions.get(name, []) if f['sig'] == call.get('csig')] or F.functions.get(name, [])
        if call.get('k') == 'Construct':
            return fns
        if call.get('virt'):
            objcls = call.get('objcls')
            simple = call['fn']
            # receiver is the AbstractFile parameter: bind to the context class
            if objcls == 'Vector::BLF::AbstractFile' and beta:
                cands = [f for f in F.method(beta, simple) if f['sig'] == call['csig']]
                return cands
            # a member object / local object of exact type: devirtualise
            o = strip_all_casts(call.get('obj'))
            exact = False
            if isinstance(o, dict):
                if o.get('k') == 'Member' and o.get('dk') == 'field' and not o['t'].endswith('*') and '&' not in o['t']:
                    exact = True
                if o.get('k') == 'Ref' and o.get('dk') == 'local' and not o['t'].endswith('*'):
                    exact = True
                if o.get('k') == 'This' and F.records.get(objcls, {}).get('final'):
                    exact = True
            if exact:
                return [f for f in F.method(objcls, simple) if f['sig'] == call['csig']]
            out = []
            classes = [objcls] + F.derived_from(objcls)
            seen = set()
            for c in classes:
                for f in F.method(c, simple):
                    if f['sig'] == call['csig'] and id(f) not in seen:
                        seen.add(id(f))
                        out.append(f)
            return out
        return fns

    def beta_for_call(self, call, callee, caller_beta, caller):
        """context of the callee: which concrete stream class its AbstractFile& parameter is bound to"""
        for p, a in zip(callee['params'], call.get('args', [])):
            if 'Vector::BLF::AbstractFile' in p['t'] and '&' in p['t']:
                x = strip_all_casts(a)
                if isinstance(x, dict):
                    if x.get('k') == 'Ref' and 'AbstractFile' in x.get('t', ''):
                        return caller_beta
                    t = x.get('t', '')
                    for c in ('Vector::BLF::UncompressedFile', 'Vector::BLF::CompressedFile'):
                        if t == c:
                            return c
        return None

    # ------------------------------------------------------------------ A3 throws
    def external_effect(self, call):
        if call.get('nothrow'):
            return set()
        k = call.get('k')
        fn = call.get('fn') or ''
        callee = call.get('callee') or ''
        if k == 'Construct':
            cls = call.get('cls') or ''
            if cls.startswith('std::lock_guard') or cls.startswith('std::unique_lock'):
                return set()
            if cls.startswith('std::thread'):
                return {'other'}
            if call.get('trivialCtor') or (call.get('defaultCtor') and cls.startswith(('std::vector', 'std::basic_string', 'std::list',
                                                                                        'std::queue', 'std::shared_ptr', 'std::array',
                                                                                        'std::condition_variable', 'std::mutex',
                                                                                        'std::atomic', 'std::fpos', 'std::exception_ptr'))):
                return set()
            if cls.startswith(('std::shared_ptr', 'std::fpos', 'std::exception_ptr', 'std::atomic', 'std::_List_const_iterator',
                               'std::_List_iterator', 'std::__shared_ptr')):
                # shared_ptr(T*) allocates a control block
                if cls.startswith('std::shared_ptr') and not call.get('copyOrMove') and call.get('args'):
                    return {'alloc'}
                return set()
            if cls.startswith(('std::vector', 'std::basic_string', 'std::list')):
                return {'alloc'}
            return {'other'}
        if call.get('ck') == 'operator':
            cls = call.get('cls') or ''
            op = call.get('op')
            if op == '=' and cls.startswith(('std::vector', 'std::basic_string', 'std::list')):
                return {'alloc'}
            if op == '<<':
                return set()   # ostream insertion, default exception mask
            if cls.startswith(('std::shared_ptr', 'std::__shared_ptr', 'std::atomic', 'std::__atomic', 'std::fpos', 'std::_List',
                               'std::thread', 'std::exception_ptr', 'std::__exception_ptr', 'std::__normal_iterator', 'std::_Ios')) or not cls:
                return set()
            return {'other'}
        if fn in NOTHROW_METHODS and call.get('ck') == 'member':
            return set()
        if fn in ALLOC_METHODS and call.get('ck') == 'member':
            return {'alloc'}
        if callee in NOTHROW_FUNCTIONS or fn in ('uncompress', 'compress2', 'compressBound'):
            return set()
        if callee in ALLOC_FUNCTIONS:
            return {'alloc'}
        if callee in OTHER_FUNCTIONS:
            return {'other'}
        if call.get('ck') == 'member' and (call.get('cls') or '').startswith(('std::atomic', 'std::__atomic')):
            return set()
        if call.get('ck') == 'member' and fn.startswith('operator'):
            return set()   # conversion operators of std types (atomic<bool>::operator bool, fpos -> streamoff)
        return {'other'}

    def effects(self):
        """function id (name, sig) -> set of throw effects escaping it (fixpoint)"""
        if self._eff is not None:
            return self._eff
        F = self.F
        eff = {}
        allf = [f for fns in F.functions.values() for f in fns]
        for f in allf:
            eff[(f['name'], f['sig'])] = set()
        changed = True
        rounds = 0
        while changed:
            changed = False
            rounds += 1
            if rounds > 50:
                raise AnalysisBroken('effect fixpoint does not converge')
            for f in allf:
                e = self._escaping(f['body'], eff)
                if f.get('nothrow') and f.get('kind') != 'dtor':
                    pass
                k = (f['name'], f['sig'])
                if not e <= eff[k]:
                    eff[k] |= e
                    changed = True
        self._eff = eff
        return eff

    def call_effect(self, n, eff):
        k = n.get('k')
        if k == 'New':
            e = {'alloc'}
            init = n.get('init')
            if isinstance(init, dict) and init.get('k') == 'Construct':
                e |= self.call_effect(init, eff)
            return e
        if k == 'Delete':
            return set()
        if k == 'Throw':
            t = n.get('thrown') or ''
            if n.get('sub') is None:
                return {'rethrow'}
            return {'BLF'} if BLF_EXC in t else {'other'}
        if k in ('Call', 'Construct'):
            if n.get('calleeInRoot'):
                cands = self.resolve(n)
                if not cands and n.get('k') == 'Construct':
                    return set()   # implicit/defaulted constructor of a repo class: members have no throwing initialisers
                if not cands:
                    # declared in /repo/src but no body found (pure virtual, inline in header not exported)
                    return set() if n.get('cvirtual') else {'other'}
                e = set()
                for c in cands:
                    e |= eff.get((c['name'], c['sig']), set())
                return e
            return self.external_effect(n)
        return set()

    def _escaping(self, s, eff):
        """effects escaping statement s (structured, handles try/catch)"""
        if not isinstance(s, dict):
            return set()
        k = s.get('k')
        if k == 'Try':
            inner = self._escaping(s['body'], eff)
            out = set()
            caught_all = False
            remaining = set(inner)
            for h in s['handlers']:
                t = h['type']
                if t == '...':
                    caught = set(remaining)
                elif BLF_EXC in t:
                    caught = remaining & {'BLF'}
                elif 'std::exception' in t:
                    caught = remaining & {'BLF', 'alloc', 'other'}   # everything the library and the std library throw derives from it
                else:
                    caught = set()
                remaining -= caught
                hb = self._escaping(h['body'], eff)
                if 'rethrow' in hb:
                    hb.discard('rethrow')
                    hb |= caught
                out |= hb
            return out | remaining
        if k == 'Lambda':
            return set()
        out = set()
        if k in ('Call', 'Construct', 'New', 'Throw'):
            out |= self.call_effect(s, eff)
        for c in children(s):
            out |= self._escaping(c, eff)
        return out

    # ------------------------------------------------------------------ A4 paths
    def paths(self, fn, follow=('BLF', 'alloc', 'other'), unroll=2):
        """enumerate paths of a function; `follow` = which exceptional effects produce edges"""
        ck = (fn['name'], fn['sig'], tuple(sorted(follow)), unroll)
        if not hasattr(self, '_pcache'):
            self._pcache = {}
        if ck in self._pcache:
            return self._pcache[ck]
        eff = self.effects()
        ctx = {'follow': set(follow), 'eff': eff, 'unroll': unroll, 'count': 0, 'fn': fn, 'root': fn}
        res = []
        for evs, out in self._stmt(fn['body'], ctx):
            if out in ('break', 'continue'):
                raise AnalysisBroken('break/continue outside loop in ' + fn['name'])
            if getattr(self, 'path_filter', None) is not None and not self.path_filter(evs):
                continue
            res.append((evs, out))
            if len(res) > MAX_PATHS:
                raise AnalysisBroken('path cap exceeded in ' + fn['name'])
        self._pcache[ck] = res
        return res

    def _expr_events(self, e, ctx):
        """yield (events, outcome) for evaluating expression e: normal and exceptional continuations.
        Events are in post-order; an exceptional edge leaves after the throwing call."""
        evs = []
        results = []

        def rec(n):
            if not isinstance(n, dict):
                return
            k = n.get('k')
            if k == 'Lambda':
                evs.append({'ev': 'lambda', 'n': n, 'l': n.get('l')})
                return
            if k == 'Bin' and n.get('op') in ('=', '+=', '-=', '*=', '/=', '|=', '&=') or (k == 'Call' and n.get('ck') == 'operator' and n.get('op') in ('=', '+=', '-=')):
                if k == 'Bin':
                    rec(n['rhs'])
                    rec(n['lhs'])
                else:
                    for a in reversed(n.get('args', [])):
                        rec(a)
                if k == 'Call':
                    evs.append({'ev': 'call', 'n': n, 'l': n.get('l')})
                    self._maybe_throw(n, evs, results, ctx)
                evs.append({'ev': 'assign', 'n': n, 'l': n.get('l')})
                return
            if k == 'Un' and n.get('op') in ('++', '--'):
                rec(n['sub'])
                evs.append({'ev': 'assign', 'n': n, 'l': n.get('l')})
                return
            if k == 'Call' and n.get('ck') == 'operator' and n.get('op') in ('++', '--'):
                for a in n.get('args', []):
                    rec(a)
                evs.append({'ev': 'call', 'n': n, 'l': n.get('l')})
                evs.append({'ev': 'assign', 'n': n, 'l': n.get('l')})
                return
            for c in children(n):
                rec(c)
            if k in ('Call', 'Construct', 'New', 'Delete'):
                evs.append({'ev': 'call' if k != 'Delete' else 'delete', 'n': n, 'l': n.get('l')})
                self._maybe_throw(n, evs, results, ctx)
            elif k == 'Throw':
                t = n.get('thrown') or ''
                e2 = 'rethrow' if n.get('sub') is None else ('BLF' if BLF_EXC in t else 'other')
                evs.append({'ev': 'throw', 'n': n, 'l': n.get('l'), 'eff': e2})
                results.append((list(evs), ('throw', e2)))
                raise _Stop()
            elif k in ('Member', 'Ref'):
                evs.append({'ev': 'use', 'n': n, 'l': n.get('l')})
        try:
            rec(e)
            results.append((evs, 'normal'))
        except _Stop:
            pass
        return results

    def _maybe_throw(self, n, evs, results, ctx):
        e = self.call_effect(n, ctx['eff']) & ctx['follow']
        for x in sorted(e):
            results.append((list(evs) + [{'ev': 'exc', 'n': n, 'l': n.get('l'), 'eff': x}], ('throw', x)))

    def _seq(self, stmts, ctx):
        """sequential composition over a list of statements"""
        partial = [([], 'normal')]
        for s in stmts:
            nxt = []
            for evs, out in partial:
                if out != 'normal':
                    nxt.append((evs, out))
                    continue
                for evs2, out2 in self._stmt(s, ctx):
                    nxt.append((evs + evs2, out2))
            partial = nxt
            ctx['count'] = max(ctx['count'], len(partial))
            if len(partial) > MAX_PATHS:
                raise AnalysisBroken('path cap exceeded in ' + ctx['fn']['name'])
        return partial

    def _stmt(self, s, ctx):
        if s is None:
            return [([], 'normal')]
        k = s.get('k')
        if k == 'Compound':
            ids = []
            for c in s['body']:
                if isinstance(c, dict) and c.get('k') == 'Decl':
                    ids += [v['id'] for v in c['vars']]
            res = self._seq(s['body'], ctx)
            if ids:
                res = [(evs + [{'ev': 'scope_end', 'ids': ids, 'l': s.get('endl')}], out) for evs, out in res]
            return res
        if k in ('Null', 'Label'):
            return [([], 'normal')]
        if k == 'Goto':
            raise AnalysisBroken('goto in ' + ctx['fn']['name'])
        if k == 'Decl':
            partial = [([], 'normal')]
            for v in s['vars']:
                nxt = []
                for evs, out in partial:
                    if out != 'normal':
                        nxt.append((evs, out))
                        continue
                    if v.get('init') is not None:
                        # int retVal = inflateInto(dst, size, src, n);  a file-local / private helper that only returns one expression is
                        # evaluated in place (its parameters bound to the arguments), so that the call it wraps is seen on the path
                        i0 = strip_all_casts(v['init'])
                        if isinstance(i0, dict) and i0.get('k') == 'Call' and i0.get('calleeInRoot') and i0.get('fn') not in self.ANCHOR_SIMPLE:
                            try:
                                import rules_pipeline
                                r_ = rules_pipeline._inline_value_helper(i0, ctx['fn'], 0) if rules_pipeline._FACTS[0] is not None else None
                            except Exception:
                                r_ = None
                            if r_ is not None:
                                v = dict(v, init=r_)
                        for evs2, out2 in self._expr_events(v['init'], ctx):
                            if out2 == 'normal':
                                nxt.append((evs + evs2 + [{'ev': 'decl', 'var': v, 'l': s.get('l')}], 'normal'))
                            else:
                                nxt.append((evs + evs2, out2))
                    else:
                        nxt.append((evs + [{'ev': 'decl', 'var': v, 'l': s.get('l')}], 'normal'))
                partial = nxt
            return partial
        if k == 'If':
            out = []
            hc = self._cond_helper(s['cond'], ctx)
            if hc is not None and ctx.get('depth', 0) < 3:
                h, neg = hc
                ctx2 = dict(ctx)
                ctx2['depth'] = ctx.get('depth', 0) + 1
                body = self._bound_body(h)
                call_ev = [{'ev': 'call', 'n': h['call'], 'l': h['call'].get('l')}]
                for evs2, o2 in self._stmt(body, ctx2):
                    if o2 != 'return':
                        out.append((call_ev + evs2, o2))
                        continue
                    ri = [i for i, e_ in enumerate(evs2) if e_['ev'] == 'return']
                    rv = strip_all_casts(evs2[ri[-1]]['n'].get('value')) if ri else None
                    known = bool(rv.get('v')) if isinstance(rv, dict) and rv.get('lit') == 'bool' else None
                    if ri:
                        evs2 = evs2[:ri[-1]] + evs2[ri[-1] + 1:]
                    for taken, branch in ((True, s.get('then')), (False, s.get('else'))):
                        if known is not None and (known != neg) != taken:
                            continue
                        bev = [{'ev': 'branch', 'n': s['cond'], 'taken': taken, 'l': s.get('l'), 'via_helper': h['name']}]
                        for evs3, o3 in self._stmt(branch, ctx):
                            out.append((call_ev + evs2 + bev + evs3, o3))
                return out
            for evs, o in self._expr_events(s['cond'], ctx):
                if o != 'normal':
                    out.append((evs, o))
                    continue
                for taken, branch in ((True, s.get('then')), (False, s.get('else'))):
                    b = [{'ev': 'branch', 'n': s['cond'], 'taken': taken, 'l': s.get('l')}]
                    for evs2, o2 in self._stmt(branch, ctx):
                        out.append((evs + b + evs2, o2))
            return out
        if k in ('While', 'For', 'Do', 'RangeFor'):
            return self._loop(s, ctx)
        if k == 'Switch':
            return self._switch(s, ctx)
        if k == 'Break':
            return [([], 'break')]
        if k == 'Continue':
            return [([], 'continue')]
        if k == 'Return':
            out = []
            if s.get('value') is None:
                return [([{'ev': 'return', 'n': s, 'l': s.get('l')}], 'return')]
            for evs, o in self._expr_events(s['value'], ctx):
                if o == 'normal':
                    out.append((evs + [{'ev': 'return', 'n': s, 'l': s.get('l')}], 'return'))
                else:
                    out.append((evs, o))
            return out
        if k == 'Try':
            out = []
            for evs, o in self._stmt(s['body'], ctx):
                if isinstance(o, tuple) and o[0] == 'throw':
                    h = self._handler_for(s, o[1])
                    if h is None:
                        out.append((evs, o))
                        continue
                    c = [{'ev': 'catch', 'type': h['type'], 'l': h.get('l'), 'eff': o[1]}]
                    for evs2, o2 in self._stmt(h['body'], ctx):
                        if isinstance(o2, tuple) and o2[1] == 'rethrow':
                            o2 = ('throw', o[1])
                        out.append((evs + c + evs2, o2))
                else:
                    out.append((evs, o))
            return out
        if k in ('Case', 'Default'):
            return self._stmt(s.get('sub'), ctx)
        if k == 'OtherStmt':
            raise AnalysisBroken('unsupported statement %s in %s' % (s.get('cls'), ctx['fn']['name']))
        # expression statement: a plain call of a private helper of the same class (an extracted method) is analysed as if its
        # body stood here, so that splitting an anchor function into helpers changes no verdict
        h = self._inlinable_helper(s, ctx)
        if h is not None and ctx.get('depth', 0) < 3:
            pre = self._expr_events(s, ctx)   # argument evaluation + the call event itself (+ its exceptional edges)
            out = []
            ctx2 = dict(ctx)
            ctx2['depth'] = ctx.get('depth', 0) + 1
            body = self._bound_body(h)
            for evs, o in pre:
                if o != 'normal':
                    # the exceptional edge of the call itself is what the inlined body will produce; keep only foreign ones
                    continue
                for evs2, o2 in self._stmt(body, ctx2):
                    out.append((evs + evs2, 'normal' if o2 == 'return' else o2))
            return out
        return self._expr_events(s, ctx)

    # functions the rules are anchored in keep their call events un-inlined
    ANCHOR_SIMPLE = {'open', 'close', 'read', 'write', 'createObject', 'uncompressedFile2ReadWriteQueue', 'readWriteQueue2UncompressedFile',
                     'compressedFile2UncompressedFile', 'uncompressedFile2CompressedFile', 'uncompressedFileReadThread',
                     'uncompressedFileWriteThread', 'compressedFileReadThread', 'compressedFileWriteThread', 'is_open', 'good', 'eof',
                     'defaultLogContainerSize', 'setDefaultLogContainerSize'}

    def _helper_target(self, s, ctx, want_ret):
        """the function (or lambda) a call statement / condition can be replaced by: a private method of the same class called on
        this, a file-local function of the repository, or a local lambda.  returns (body, param ids, args) or None"""
        if not isinstance(s, dict) or s.get('k') != 'Call':
            return None
        fn = ctx['fn']
        # local lambda:  auto f = [&](...) {...};  f(...);
        if s.get('ck') == 'operator' and s.get('op') == '()' and s.get('args'):
            o = strip_all_casts(s['args'][0])
            if isinstance(o, dict) and o.get('k') == 'Ref' and o.get('dk') == 'local':
                lam = self._local_lambda(ctx['root'], o['id'])
                if lam is not None:
                    return {'body': lam['body'], 'params': lam.get('params', []), 'args': s['args'][1:], 'name': 'lambda ' + o.get('name', '')}
            return None
        if not s.get('calleeInRoot') or s.get('virt'):
            return None
        cands = [f for f in self.F.functions.get(s.get('callee'), []) if f['sig'] == s.get('csig')]
        if len(cands) != 1 or cands[0]['name'] == fn['name'] or cands[0]['name'] == ctx['root']['name']:
            return None
        c = cands[0]
        if c.get('ret') != want_ret:
            return None
        if s.get('ck') == 'member':
            if s.get('clsq') != ctx['root'].get('class') or c.get('access') != 2 or s.get('fn') in self.ANCHOR_SIMPLE:
                return None   # only private helpers of the class under analysis (public methods and the transfer functions are the
                              # anchors the rules talk about)
            o = strip_all_casts(s.get('obj')) if s.get('obj') is not None else None
            if o is not None and not (isinstance(o, dict) and (o.get('k') == 'This' or (o.get('k') == 'Ref' and o.get('dk') == 'parm'))):
                return None
        elif s.get('ck') == 'function':
            if c.get('kind') != 'function':
                return None
        else:
            return None
        return {'body': c['body'], 'params': c['params'], 'args': s.get('args', []), 'name': c['name']}

    def _local_lambda(self, root, vid):
        cache = root.setdefault('_lambdas', None)
        if cache is None:
            cache = {}
            assigned = set()
            for n in walk(root['body']):
                if n.get('k') == 'Decl':
                    for v in n['vars']:
                        init = v.get('init')
                        x = init
                        while isinstance(x, dict) and x.get('k') in ('Cast', 'Construct') and (x.get('sub') or x.get('args')):
                            x = x.get('sub') or x['args'][0]
                        if isinstance(x, dict) and x.get('k') == 'Lambda':
                            cache[v['id']] = x
            root['_lambdas'] = cache
        return cache.get(vid)

    @staticmethod
    def _subst(node, mapping):
        """copy of a statement tree with parameter references replaced by the caller's locals they are bound to (by reference)"""
        if not mapping:
            return node
        if isinstance(node, list):
            return [Flow._subst(x, mapping) for x in node]
        if not isinstance(node, dict):
            return node
        if node.get('k') == 'Ref' and node.get('id') in mapping:
            return dict(mapping[node['id']])
        return {k: (Flow._subst(v, mapping) if isinstance(v, (dict, list)) else v) for k, v in node.items()}

    def _bound_body(self, h):
        return Flow.bind_params(h['params'], h['args'], h['body'])

    @staticmethod
    def bind_params(params, args, body):
        """the body of a helper with its parameters replaced by what the call site passes (references / pointers to designators, and value
        parameters that the helper never changes, bound to side-effect free expressions)"""
        h = {'params': params, 'args': args, 'body': body}
        self = Flow
        mapping = {}
        for p, a in zip(h['params'], h['args']):
            x = strip_all_casts(a)
            if isinstance(x, dict) and x.get('k') == 'Un' and x.get('op') in ('&', '*'):
                x = strip_all_casts(x['sub'])
            if isinstance(x, dict) and x.get('k') == 'Ref' and x.get('dk') in ('local', 'parm') and ('&' in p.get('t', '') or p.get('t', '').endswith('*')):
                mapping[p['id']] = x
            elif ('&' in p.get('t', '') or p.get('t', '').endswith('*')) and self._stable_value(strip_all_casts(a)):
                # a reference / pointer bound to a side-effect free designator: *smartPointer, member.data(), a member chain
                mapping[p['id']] = strip_all_casts(a)
            elif '&' not in p.get('t', '') and not p.get('t', '').endswith('*') and self._stable_value(x) and not self._modified(h['body'], p['id']):
                # a value parameter never changed in the helper stands for the (side-effect free) expression it was given
                mapping[p['id']] = a
        return self._subst(h['body'], mapping)

    @staticmethod
    def _stable_value(x):
        """member chains on locals / this, locals, literals - nothing that calls or changes anything"""
        for n in walk(x or {}):
            k = n.get('k')
            if k in ('Member', 'Ref', 'Lit', 'Cast', 'This', 'Paren', 'Sizeof'):
                continue
            if k == 'Construct' and (n.get('copyOrMove') or len(n.get('args', [])) == 1):
                continue     # the copy made for a by-value class parameter
            if k == 'Un' and n.get('op') in ('*', '&', '-', '+', '!', '~'):
                continue
            if k == 'Bin' and n.get('op') in ('+', '-', '*', '/', '%', '<', '>', '<=', '>=', '==', '!=', '&', '|', '^', '<<', '>>', '&&', '||'):
                continue
            if k == 'Call' and n.get('ck') == 'operator' and n.get('op') in ('+', '-', '<', '>', '<=', '>=', '==', '!='):
                continue     # position arithmetic (std::fpos)
            if k == 'Call' and str(n.get('fn') or '').startswith('operator ') and not n.get('args'):
                continue     # conversion operator
            if k == 'Call' and (n.get('fn') in ('data', 'size', 'get', 'cbegin', 'begin') or
                                (n.get('ck') == 'operator' and n.get('op') in ('*', '->')) or n.get('fn') in ('operator*', 'operator->')):
                continue     # accessors without side effects
            return False
        return isinstance(x, dict)

    @staticmethod
    def _modified(body, vid):
        for n in walk(body or {}):
            if n.get('k') == 'Bin' and n.get('op') in ('=', '+=', '-=', '*=', '/=', '|=', '&=', '^=', '<<=', '>>=') and (strip_all_casts(n['lhs']) or {}).get('id') == vid:
                return True
            if n.get('k') == 'Un' and n.get('op') in ('++', '--', '&') and (strip_all_casts(n['sub']) or {}).get('id') == vid:
                return True
        return False

    def _inlinable_helper(self, s, ctx):
        h = self._helper_target(s, ctx, 'void')
        if h is None and isinstance(s, dict) and s.get('k') == 'Call' and s.get('ck') == 'operator' and s.get('op') == '()':
            h = self._helper_target(s, ctx, None)
        return h

    def _cond_helper(self, cond, ctx):
        c = strip(cond)
        neg = False
        while isinstance(c, dict) and (c.get('k') == 'Cast' or (c.get('k') == 'Un' and c.get('op') == '!')):
            if c.get('k') == 'Un':
                neg = not neg
            c = strip(c['sub'])
        h = self._helper_target(c, ctx, 'bool')
        if h is None:
            return None
        h['call'] = c
        return h, neg

    @staticmethod
    def _handler_for(trystmt, eff):
        for h in trystmt['handlers']:
            t = h['type']
            if t == '...':
                return h
            if BLF_EXC in t and eff == 'BLF':
                return h
            if 'std::exception' in t and eff in ('BLF', 'alloc', 'other'):
                return h
        return None

    def _loop(self, s, ctx):
        k = s['k']
        cond = s.get('cond')
        body = s.get('body')
        out = []
        init = [([], 'normal')]
        if k == 'For' and s.get('init') is not None:
            init = self._stmt(s['init'], ctx)
        if k == 'RangeFor':
            init = self._expr_events(s['range'], ctx)

        def cond_paths():
            if cond is None:
                return [([], 'normal')]
            return self._expr_events(cond, ctx)

        def iterate(prefix, n):
            # evaluate condition
            for evs, o in cond_paths():
                if o != 'normal':
                    out.append((prefix + evs, o))
                    continue
                # exit
                if cond is not None or k == 'RangeFor':
                    out.append((prefix + evs + [{'ev': 'branch', 'n': cond or s, 'taken': False, 'l': s.get('l'), 'loop': True}], 'normal'))
                if n >= ctx['unroll']:
                    continue
                b = [{'ev': 'branch', 'n': cond or s, 'taken': True, 'l': s.get('l'), 'loop': True}]
                for evs2, o2 in self._stmt(body, ctx):
                    p = prefix + evs + b + evs2
                    if o2 == 'break':
                        out.append((p, 'normal'))
                    elif o2 in ('normal', 'continue'):
                        if k == 'For' and s.get('inc') is not None:
                            for evs3, o3 in self._expr_events(s['inc'], ctx):
                                if o3 == 'normal':
                                    iterate(p + evs3, n + 1)
                                else:
                                    out.append((p + evs3, o3))
                        else:
                            iterate(p, n + 1)
                    else:
                        out.append((p, o2))
                if len(out) > MAX_PATHS:
                    raise AnalysisBroken('path cap exceeded in loop of ' + ctx['fn']['name'])
        for evs0, o0 in init:
            if o0 != 'normal':
                out.append((evs0, o0))
            else:
                iterate(evs0, 0)
        return out

    def _switch(self, s, ctx):
        out = []
        body = s.get('body')
        stmts = body['body'] if body and body.get('k') == 'Compound' else [body]
        # flatten nested case labels: case A: case B: stmt
        flat = []
        for st in stmts:
            labels = []
            cur = st
            while isinstance(cur, dict) and cur.get('k') in ('Case', 'Default'):
                labels.append(cur)
                cur = cur.get('sub')
            flat.append((labels, cur))
        entries = [(i, lab) for i, (labels, _) in enumerate(flat) for lab in labels]
        has_default = any(lab['k'] == 'Default' for _, lab in entries)
        for evs, o in self._expr_events(s['cond'], ctx):
            if o != 'normal':
                out.append((evs, o))
                continue
            for i, lab in entries:
                b = [{'ev': 'branch', 'n': s['cond'], 'taken': True, 'case': lab.get('value'), 'l': lab.get('l'), 'default': lab['k'] == 'Default'}]
                for evs2, o2 in self._seq([c for _, c in flat[i:]], ctx):
                    if o2 == 'break':
                        o2 = 'normal'
                    out.append((evs + b + evs2, o2))
            if not has_default:
                out.append((evs + [{'ev': 'branch', 'n': s['cond'], 'taken': False, 'case': None, 'l': s.get('l'), 'nocase': True}], 'normal'))
        return out


class _Stop(Exception):
    pass


# ---------------------------------------------------------------------- helpers over events

def call_name(ev):
    n = ev['n']
    return n.get('callee') or ''


def is_call_to(ev, name_suffix):
    return ev['ev'] == 'call' and (ev['n'].get('callee') or '').endswith(name_suffix)


def receiver_path(call):
    """member path of the object a method is called on (relative to this / a local)"""
    return member_path(call.get('obj')) if call.get('obj') is not None else None


def fmt_events(evs, F=None, limit=14):
    out = []
    for e in evs:
        if e['ev'] == 'call':
            out.append('%s@%s' % ((e['n'].get('callee') or e['n'].get('k')).replace('Vector::BLF::', ''), e.get('l')))
        elif e['ev'] == 'branch':
            out.append('[%s@%s]' % ('T' if e['taken'] else 'F', e.get('l')))
        elif e['ev'] in ('throw', 'exc'):
            out.append('%s(%s)@%s' % (e['ev'], e.get('eff'), e.get('l')))
        elif e['ev'] == 'catch':
            out.append('catch(%s)@%s' % (e['type'].replace('Vector::BLF::', ''), e.get('l')))
        elif e['ev'] == 'return':
            out.append('return@%s' % e.get('l'))
        elif e['ev'] == 'delete':
            out.append('delete@%s' % e.get('l'))
    if len(out) > limit:
        out = out[:limit // 2] + ['...'] + out[-limit // 2:]
    return ' -> '.join(out)
