"""A5 layout algebra as a symbolic interpreter over codec methods (read / write /
calculate*Size).  A codec method is straight-line code over a closed list of primitives
(DESIGN A5); the interpreter walks every path (forking at guards it cannot decide from what
is already known on the path), inlines base-class / sub-object codec calls along resolved
callees, and produces per path: the ordered stream items, the guards taken, the final
symbolic member values and container sizes.  Anything outside the closed list raises
AnalysisBroken (exit 2) naming the construct.

Three modes:
  * 'write'  : members hold caller values  f(path), containers sz(path)
  * 'read'   : fresh object (containers empty); each read binds the member to a fresh input
               symbol in(path)  - or, when a writer stream is supplied, to the value the
               writer emitted at this stream position (reader-over-writer, C01/C03)
  * 'size'   : like write, evaluates a calculate* function
"""
import re
import copy

import sym
from sym import Lin
from facts import AnalysisBroken, member_path, strip, strip_all_casts, fmt_path

MAX_DEPTH = 8
MAX_PATHS = 256

HEADER_CLASSES = ('Vector::BLF::ObjectHeaderBase', 'Vector::BLF::ObjectHeader', 'Vector::BLF::ObjectHeader2',
                  'Vector::BLF::VarObjectHeader')
ABSTRACT_FILE = 'Vector::BLF::AbstractFile'


class Item:
    __slots__ = ('kind', 'path', 'width', 'value', 'elem', 'line', 'file', 'fn', 'via', 'src', 'target_size', 'extra')

    def __init__(self, **kw):
        for k in self.__slots__:
            setattr(self, k, kw.get(k))

    def desc(self):
        p = fmt_path(self.path) if self.path is not None else '-'
        return '%s %s [%r bytes] (%s:%s)' % (self.kind, p, self.width, (self.file or '').split('/')[-1], self.line)

    def to_json(self):
        return {'kind': self.kind, 'member': fmt_path(self.path) if self.path is not None else None,
                'bytes': repr(self.width), 'site': '%s:%s' % ((self.file or '').split('/')[-1], self.line)}


class St:
    def __init__(self):
        self.menv = {}
        self.sz = {}
        self.content = {}
        self.lenv = {}
        self.guards = []
        self.items = []
        self.pos = 0
        self.viol = []
        self.assigned = []   # (path, Lin, line, note)
        self.pairs = []      # reader-over-writer: (writer item, reader item)
        self.ret = None
        self.thrown = None
        self.dead = False    # path stopped by a violation that makes continuing meaningless
        self.brk = False     # a `break` inside a switch is pending
        self.infeasible = False
        self.nin = 0
        self.lambdas = {}
        self.lsz = {}        # local byte buffers (std::vector<char> tmp): (frame key, var id) -> size
        self.lzero = set()   # ... of those, the ones that still hold the zeros they were initialised with
        self.reads_of = []   # (path, line, fn) - every member value consulted in a computation (for L8)
        self.stale = []      # (path, read line, read fn, assign line) - consulted, then redefined by the same run

    def fork(self):
        n = St.__new__(St)
        n.menv = dict(self.menv)
        n.sz = dict(self.sz)
        n.content = dict(self.content)
        n.lenv = dict(self.lenv)
        n.guards = list(self.guards)
        n.items = list(self.items)
        n.pos = self.pos
        n.viol = list(self.viol)
        n.assigned = list(self.assigned)
        n.pairs = list(self.pairs)
        n.ret = self.ret
        n.thrown = self.thrown
        n.dead = self.dead
        n.brk = self.brk
        n.infeasible = self.infeasible
        n.nin = self.nin
        n.reads_of = list(self.reads_of)
        n.lambdas = dict(self.lambdas)
        n.lsz = dict(self.lsz)
        n.lzero = set(self.lzero)
        n.stale = list(self.stale)
        return n


VOID = ('void',)


class Frame:
    def __init__(self, fn, prefix, dyn_cls, depth, chain):
        self.fn = fn
        self.prefix = prefix
        self.dyn_cls = dyn_cls
        self.depth = depth
        self.chain = chain
        self.file_parm_ids = set()
        for p in fn['params']:
            if ABSTRACT_FILE in p['t']:
                self.file_parm_ids.add(p['id'])
        self.key = (fn['name'], depth)
        self.stream_this = False   # the function is a method of the stream itself: read()/write()/seekg() on the implicit this are stream operations
        self.obj_alias = {}   # parameter name -> member path prefix of the object it designates (`*this` passed to a helper function)
        self.ptr_alias = {}   # pointer parameter name -> ('addr', member path) | ('data', container path)
        self.outer_key = None


class Interp:
    def __init__(self, facts, cls, mode, stream=None):
        self.F = facts
        self.cls = cls
        self.mode = mode
        self.stream = stream
        self.bounds = {}
        self.npaths = 0

    # ------------------------------------------------------------------ symbols
    def field_info(self, cls, path):
        """resolve a member path starting at class cls -> (owner record, field dict)"""
        cur = cls
        f = None
        owner = None
        for name in path:
            owner, f = self.F.field(cur, name)
            if f is None:
                return None, None
            cur = f.get('rec') and self._rec_qname(f) or None
        return owner, f

    def _rec_qname(self, f):
        # field of record type: find the qualified record name among known records
        t = f['t']
        if t in self.F.records:
            return t
        return None

    def bound_for(self, f):
        if f is None:
            return None
        k = f.get('kind')
        s = f.get('size')
        if k == 'bool':
            return (0, 1)
        if k in ('int', 'enum') and s:
            if f.get('signed'):
                return (-(1 << (8 * s - 1)), (1 << (8 * s - 1)) - 1)
            return (0, (1 << (8 * s)) - 1)
        return None

    def sym_member(self, kind, path, st, extra=None):
        t = (kind, path) if extra is None else (kind, path, extra)
        if t not in self.bounds:
            _, f = self.field_info(self.cls, path)
            b = self.bound_for(f)
            if b:
                self.bounds[t] = b
        return Lin.term(t)

    def member_value(self, path, st, frame=None, line=None, consult=True):
        if consult:
            st.reads_of.append((path, line, frame.fn['name'] if frame else None))
        if path in st.menv:
            return st.menv[path]
        if self.mode == 'read':
            v = self.sym_member('init', path, st)
        else:
            v = self.sym_member('f', path, st)
        return v

    def container_size(self, path, st):
        if path in st.sz:
            return st.sz[path]
        _, f = self.field_info(self.cls, path)
        if f is None:
            raise AnalysisBroken('cannot resolve container member %s in %s' % (fmt_path(path), self.cls))
        if f.get('rec') == 'std::array':
            return Lin(f['count'])
        if self.mode == 'read':
            return Lin(0)
        t = ('sz', path)
        self.bounds[t] = (0, sym.INF)
        return Lin.term(t)

    # ------------------------------------------------------------------ running
    def run(self, simple, init=None, cls=None, sig=None):
        cls = cls or self.cls
        fns = self.F.method(cls, simple)
        if sig:
            fns = [f for f in fns if sig in f['sig']]
        if len(fns) != 1:
            raise AnalysisBroken('cannot resolve %s::%s (%d candidates)' % (cls, simple, len(fns)))
        st = init.fork() if init else St()
        frame = Frame(fns[0], (), self.cls, 0, (fns[0]['name'],))
        outs = self.exec_fn(frame, st)
        return outs

    def exec_fn(self, frame, st):
        if frame.depth > MAX_DEPTH:
            raise AnalysisBroken('inlining depth exceeded at ' + frame.fn['name'])
        outs = self.exec_stmt(frame.fn['body'], st, frame)
        res = []
        for s in outs:
            if s.ret is None and not s.thrown:
                s.ret = VOID
            res.append(s)
        if len(res) > MAX_PATHS:
            raise AnalysisBroken('path cap exceeded in ' + frame.fn['name'])
        return res

    def exec_block(self, stmts, st, frame):
        states = [st]
        for s in stmts:
            nxt = []
            for cur in states:
                if cur.ret is not None or cur.thrown or cur.dead or cur.brk:
                    nxt.append(cur)
                else:
                    nxt.extend(self.exec_stmt(s, cur, frame))
            states = nxt
            if len(states) > MAX_PATHS:
                raise AnalysisBroken('path cap exceeded in ' + frame.fn['name'])
        return states

    @staticmethod
    def _is_byte_buffer(v):
        t = (v.get('t') or '').replace('const ', '')
        return t.startswith('std::vector<char') or t.startswith('std::vector<unsigned char') or t.startswith('std::vector<uint8_t') or \
            t in ('std::string', 'std::basic_string<char>') or t.startswith('std::vector<signed char')

    @staticmethod
    def _byte_array_len(v):
        m = re.match(r'^(?:const )?(?:unsigned |signed )?(?:char|uint8_t|int8_t)\[(\d+)\]$', v.get('t') or '')
        return int(m.group(1)) if m else None

    def broken(self, what, n, frame):
        raise AnalysisBroken('unsupported construct in codec body %s (%s:%s): %s' %
                             (frame.fn['name'], self.F.rel(frame.fn['file']), n.get('l') if isinstance(n, dict) else '?', what))

    def exec_stmt(self, s, st, frame):
        if s is None:
            return [st]
        k = s.get('k')
        if k == 'Compound':
            return self.exec_block(s['body'], st, frame)
        if k == 'Null':
            return [st]
        if k == 'If':
            if s.get('init'):
                self.broken('if with init statement', s, frame)
            outs = []
            for s2, truth in self.ev_cond(s['cond'], st, frame):
                if truth:
                    outs.extend(self.exec_stmt(s['then'], s2, frame))
                else:
                    outs.extend(self.exec_stmt(s.get('else'), s2, frame) if s.get('else') else [s2])
            return outs
        if k == 'Return':
            if s.get('value') is None:
                st.ret = VOID
                return [st]
            outs = []
            if frame.fn['ret'] == 'bool':
                for s2, truth in self.ev_cond(s['value'], st, frame):
                    s2.ret = truth
                    outs.append(s2)
            else:
                for s2, v in self.ev(s['value'], st, frame):
                    s2.ret = v
                    outs.append(s2)
            return outs
        if k == 'Decl':
            states = [st]
            for v in s['vars']:
                lam = self._as_lambda(v.get('init'))
                if lam is not None:
                    for cur in states:
                        cur.lambdas[(frame.key, v['id'])] = lam
                    continue
                nxt = []
                for cur in states:
                    if self._byte_array_len(v) is not None:
                        # char pad[4] = {0, 0, 0, 0};  a fixed scratch buffer, zero while nothing is read into it
                        cur.lsz[(frame.key, v['id'])] = Lin(self._byte_array_len(v))
                        init = v.get('init')
                        if isinstance(init, dict) and init.get('k') == 'InitList' and all(isinstance(x, dict) and x.get('v') == 0 for x in init.get('elems', [])):
                            cur.lzero.add((frame.key, v['id']))
                        nxt.append(cur)
                    elif v.get('init') is None and self._is_byte_buffer(v):
                        cur.lsz[(frame.key, v['id'])] = Lin(0)
                        nxt.append(cur)
                    elif v.get('init') is None:
                        cur.lenv[(frame.key, v['id'])] = Lin.term(('local', v['name']))
                        nxt.append(cur)
                    elif v.get('kind') in ('int', 'bool', 'enum'):
                        for s2, val in self.ev(v['init'], cur, frame):
                            s2.lenv[(frame.key, v['id'])] = val
                            nxt.append(s2)
                    elif self._is_byte_buffer(v):
                        init = v.get('init')
                        args = [a_ for a_ in init.get('args', []) if not (isinstance(a_, dict) and a_.get('k') == 'DefaultArg')] \
                            if isinstance(init, dict) and init.get('k') == 'Construct' else []
                        if len(args) == 1:
                            for s2, val in self.ev(args[0], cur, frame):
                                s2.lsz[(frame.key, v['id'])] = val
                                if (v.get('t') or '').replace('const ', '').startswith('std::vector<'):
                                    s2.lzero.add((frame.key, v['id']))   # std::vector<char> zeros(n): value-initialised elements
                                nxt.append(s2)
                        elif not args:
                            cur.lsz[(frame.key, v['id'])] = Lin(0)
                            nxt.append(cur)
                        else:
                            self.broken('local buffer %s constructed from %d arguments' % (v.get('name'), len(args)), s, frame)
                    else:
                        self.broken('local variable of type ' + v.get('t', '?'), s, frame)
                states = nxt
            return states
        if k in ('While', 'For', 'Do'):
            return self.exec_resync_loop(s, st, frame)
        if k == 'Switch':
            return self.exec_switch(s, st, frame)
        if k == 'Break':
            st.brk = True
            return [st]
        if k == 'Throw':
            st.thrown = s.get('thrown') or 'throw'
            return [st]
        if k in ('Call', 'Bin', 'Un', 'Construct'):
            return self.exec_expr_stmt(s, st, frame)
        if k == 'Cast' and s.get('cast') == 'ToVoid':
            return [st]
        self.broken('statement kind ' + str(k), s, frame)

    def exec_switch(self, s, st, frame):
        """switch (v) { case c: ...; break; ... default: ... } as the chain of guards v == c it stands for (fall-through included)"""
        if s.get('init'):
            self.broken('switch with init statement', s, frame)
        body = s.get('body')
        stmts = body['body'] if isinstance(body, dict) and body.get('k') == 'Compound' else [body]
        flat = []
        for st_ in stmts:
            labels = []
            cur = st_
            while isinstance(cur, dict) and cur.get('k') in ('Case', 'Default'):
                labels.append(cur)
                cur = cur.get('sub')
            flat.append((labels, cur))
        entries = [(i, lab) for i, (labels, _) in enumerate(flat) for lab in labels]
        if not entries:
            self.broken('switch without case labels', s, frame)
        consts = []
        for i, lab in entries:
            if lab['k'] == 'Case':
                v = lab.get('value')
                cv = v.get('v') if isinstance(v, dict) else None
                if cv is None and isinstance(v, dict):
                    for x in walk(v):
                        if 'v' in x:
                            cv = x['v']
                            break
                if cv is None:
                    self.broken('case label without a constant value', lab, frame)
                consts.append((i, int(cv)))
        default = [i for i, lab in entries if lab['k'] == 'Default']
        outs = []
        for s1, v in self.ev(s['cond'], st, frame):
            # decide the cases one after the other; what is left goes to default (or past the switch)
            pending = [s1]
            for i, c in consts:
                nxt = []
                for cur in pending:
                    for s2, t in self.split(sym.g_cmp(v, '==', Lin(c)), cur):
                        if t:
                            outs.extend(self.exec_block([b for _, b in flat[i:] if b is not None], s2, frame))
                        else:
                            nxt.append(s2)
                pending = nxt
            for cur in pending:
                if cur.dead:
                    outs.append(cur)
                elif default:
                    outs.extend(self.exec_block([b for _, b in flat[default[0]:] if b is not None], cur, frame))
                else:
                    outs.append(cur)
        for o in outs:
            o.brk = False
        return outs

    # the only loop a codec may contain: the signature search of ObjectHeaderBase::read.
    # It is modelled as "4 bytes read into `signature`"; its table is the subject of rule S1.
    def exec_resync_loop(self, s, st, frame):
        if not frame.fn['name'].endswith('ObjectHeaderBase::read'):
            self.broken('loop', s, frame)
        if s.get('k') == 'For' and (s.get('init') is not None or s.get('inc') is not None):
            self.broken('signature search loop with init/increment', s, frame)
        from facts import walk
        reads = [n for n in walk(s['body']) if n.get('k') == 'Call' and n.get('callee') == ABSTRACT_FILE + '::read']
        assigns = [n for n in walk(s['body']) if n.get('k') == 'Bin' and n.get('op') == '=' and
                   member_path(n['lhs']) == ('signature',)]
        if len(reads) != 1 or len(assigns) != 1:
            self.broken('resynchronisation loop does not have the shape read(tmp)/signature = tmp', s, frame)
        n = strip(reads[0]['args'][1]).get('v')
        if n is None:
            self.broken('resynchronisation loop reads a non-constant count', s, frame)
        path = frame.prefix + ('signature',)
        it = Item(kind='field', path=path, width=Lin(n), line=reads[0]['l'], file=frame.fn['file'], fn=frame.fn['name'],
                  via=frame.chain, src='member', target_size=4, extra='resync')
        return self.do_read_item(it, st, frame)

    # ------------------------------------------------------------------ expression statements
    def exec_expr_stmt(self, e, st, frame):
        k = e['k']
        if k == 'Bin' and e['op'] == '=':
            return self.do_assign(e, st, frame)
        if k == 'Bin' and e['op'] in ('+=', '-=', '*=', '/=', '|=', '&='):
            return self.do_assign(e, st, frame, compound=e['op'][:-1])
        if k == 'Un' and e['op'] in ('++', '--'):
            self.broken('increment', e, frame)
        if k == 'Call' and e.get('ck') == 'operator' and e.get('op') == '()' and e.get('args'):
            o = strip_all_casts(e['args'][0])
            lam = st.lambdas.get((frame.key, o.get('id'))) if isinstance(o, dict) and o.get('k') == 'Ref' else None
            if lam is None:
                # a lambda of an enclosing frame (captured by reference)
                for (fk, vid), l_ in st.lambdas.items():
                    if isinstance(o, dict) and vid == o.get('id'):
                        lam = l_
            if lam is not None:
                pseudo = {'name': frame.fn['name'] + '::(lambda)', 'params': lam.get('params', []), 'body': lam['body'], 'ret': 'void',
                          'file': frame.fn['file'], 'sig': 'lambda', 'line': lam.get('l')}
                call = {'k': 'Call', 'args': e['args'][1:], 'l': e.get('l')}
                return [s2 for s2, _ in self.call_bound(pseudo, frame.prefix, frame.dyn_cls, call, st, frame, inherit=frame)]
        if k == 'Call':
            callee = e.get('callee') or ''
            obj = e.get('obj')
            # stream primitives on the AbstractFile parameter
            if e.get('ck') == 'member' and self.is_file_parm(obj, frame):
                fn = e['fn']
                if fn == 'read':
                    return self.prim_read(e, st, frame)
                if fn == 'write':
                    return self.prim_write(e, st, frame)
                if fn == 'seekg':
                    return self.prim_skip(e, st, frame, 'seekg')
                if fn == 'skipp':
                    return self.prim_skip(e, st, frame, 'skipp')
                if fn in ('eof', 'good', 'tellg', 'tellp'):
                    return [st]
                # a helper method of the stream interface itself (AbstractFile::skipX, readString, ...): its body is executed with the
                # stream as implicit this
                cands = [f for f in self.F.functions.get(e.get('callee'), []) if f['sig'] == e.get('csig') and f.get('body')]
                if e.get('calleeInRoot') and len(cands) == 1 and not e.get('virt_pure'):
                    return [s2 for s2, _ in self.call_bound(cands[0], frame.prefix, frame.dyn_cls, e, st, frame, stream_this=True)]
                self.broken('stream operation ' + fn, e, frame)
            if e.get('ck') == 'member' and e.get('fn') == 'resize':
                return self.prim_resize(e, st, frame)
            if e.get('ck') == 'member' and e.get('fn') in ('reserve', 'shrink_to_fit') and not e.get('calleeInRoot'):
                return [st]   # capacity only: size() and contents are unchanged
            if e.get('ck') in ('member', 'function') and e.get('calleeInRoot'):
                # codec call on this / base / sub-object, or an extracted helper function that gets the stream (and the object)
                outs = []
                for s2, _ in self.call_inline(e, st, frame):
                    outs.append(s2)
                return outs
            self.broken('call to ' + callee, e, frame)
        self.broken('expression statement ' + k, e, frame)

    def is_file_parm(self, obj, frame):
        if frame.stream_this and (obj is None or (isinstance(strip_all_casts(obj), dict) and strip_all_casts(obj).get('k') == 'This')):
            return True
        o = strip_all_casts(obj) if obj is not None else None
        return isinstance(o, dict) and o.get('k') == 'Ref' and o.get('id') in frame.file_parm_ids

    def abs_path(self, e, frame):
        p = member_path(e)
        if p is None:
            return None
        if p and p[0].startswith('$'):
            al = frame.obj_alias.get(p[0][1:])
            if al is None:
                return None
            return al + p[1:]
        return frame.prefix + p

    def do_assign(self, e, st, frame, compound=None):
        lhs = strip_all_casts(e['lhs'])
        outs = []
        if lhs.get('k') == 'Ref' and lhs.get('dk') in ('local', 'parm'):
            key = (frame.key, lhs['id'])
            # an 8/16-bit local holds what fits into it (`auto size = <uint16_t>; size += <32-bit length>` wraps at 65536)
            bits = 8 * (self.type_size(lhs.get('t')) or 0)
            for s2, v in self.ev(e['rhs'], st, frame):
                if compound:
                    v = sym.op(compound, s2.lenv.get(key, Lin.term(('local', lhs['name']))), v)
                if bits in (8, 16) and 'bool' not in (lhs.get('t') or '') and not self.fits(v, bits):
                    v = sym.trunc(v, bits)
                s2.lenv[key] = v
                outs.append(s2)
            return outs
        path = self.abs_path(lhs, frame)
        if path is None:
            self.broken('assignment to a non-member', e, frame)
        _, f = self.field_info(self.cls, path)
        if f is None or f.get('kind') not in ('int', 'bool', 'enum'):
            self.broken('assignment to non-scalar member ' + fmt_path(path), e, frame)
        rhs_is_bool = f.get('kind') == 'bool'
        if rhs_is_bool:
            pairs = [(s2, Lin(1 if t else 0)) for s2, t in self.ev_cond(e['rhs'], st, frame)]
        else:
            pairs = self.ev(e['rhs'], st, frame)
        for s2, v in pairs:
            if compound:
                v = sym.op(compound, self.member_value(path, s2, frame, e.get('l')), v)
            r = strip(e['rhs'])
            from facts import walk as _walk
            note = {'literal': not any(x.get('k') in ('Call', 'Member') for x in _walk(e['rhs']))}
            if isinstance(r, dict) and r.get('k') == 'Cast' and r.get('style') in ('static', 'c', 'functional'):
                note.update({'cast_to': r['t'], 'member_t': f['t'], 'cast_size': self.type_size(r['t']), 'member_size': f.get('size')})
            if not compound:
                for (rp, rl, rf) in s2.reads_of:
                    if rp == path:
                        s2.stale.append((path, rl, rf, e.get('l')))
                        break
            s2.menv[path] = v
            s2.assigned.append((path, v, e.get('l'), note, frame.fn['name'], len(s2.items)))
            outs.append(s2)
        return outs

    @staticmethod
    def type_size(t):
        t = (t or '').replace('const ', '').replace('volatile ', '').strip()
        return {'unsigned char': 1, 'signed char': 1, 'char': 1, 'bool': 1, 'unsigned short': 2, 'short': 2, 'unsigned int': 4,
                'int': 4, 'unsigned long': 8, 'long': 8, 'unsigned long long': 8, 'long long': 8}.get(t)

    # ------------------------------------------------------------------ primitives
    def ptr_target(self, p, frame):
        """classify the pointer argument of read/write: returns dict(kind, path, target_size, elem)"""
        q = strip_all_casts(p)
        if isinstance(q, dict) and q.get('k') == 'Ref' and q.get('dk') == 'parm' and q.get('name') in frame.ptr_alias:
            kind, path = frame.ptr_alias[q['name']]
            _, f = self.field_info(self.cls, path)
            if f is None:
                self.broken('unresolvable member ' + fmt_path(path), p, frame)
            if kind == 'addr':
                return {'kind': 'member', 'path': path, 'target_size': f.get('size'), 'field': f}
            return {'kind': 'container', 'path': path, 'elem': f['elem'].get('size'), 'field': f,
                    'trivCopy': f['elem'].get('trivCopy', True) if f['elem'].get('kind') == 'record' else True}
        if q.get('k') == 'Un' and q.get('op') == '&':
            sub = strip_all_casts(q['sub'])
            if sub.get('k') == 'Ref' and sub.get('dk') == 'parm' and sub.get('name') in frame.obj_alias:
                path = frame.obj_alias[sub['name']]
                _, f = self.field_info(self.cls, path)
                if f is not None:
                    return {'kind': 'member', 'path': path, 'target_size': f.get('size'), 'field': f}
            if sub.get('k') == 'Ref' and sub.get('dk') in ('local', 'parm'):
                return {'kind': 'local', 'path': None, 'name': sub['name'], 'id': sub['id'],
                        'target_size': self.type_size(sub['t'])}
            path = self.abs_path(sub, frame)
            if path is not None and path != frame.prefix:
                _, f = self.field_info(self.cls, path)
                if f is None:
                    self.broken('unresolvable member ' + fmt_path(path), p, frame)
                return {'kind': 'member', 'path': path, 'target_size': f.get('size'), 'field': f}
            return {'kind': 'other'}
        if isinstance(q, dict) and q.get('k') == 'Ref' and q.get('dk') == 'local' and re.search(r'char\[\d+\]$|int8_t\[\d+\]$', q.get('t') or ''):
            return {'kind': 'localcontainer', 'name': q['name'], 'id': q['id']}
        if q.get('k') == 'Call' and q.get('fn') == 'data' and q.get('ck') == 'member':
            path = self.abs_path(q['obj'], frame)
            if path is not None:
                _, f = self.field_info(self.cls, path)
                if f is None or 'elem' not in f:
                    self.broken('data() on a member that is not a std container: ' + fmt_path(path), p, frame)
                return {'kind': 'container', 'path': path, 'elem': f['elem'].get('size'), 'field': f,
                        'trivCopy': f['elem'].get('trivCopy', True) if f['elem'].get('kind') == 'record' else True}
            o = strip_all_casts(q['obj'])
            if o.get('k') == 'Ref':
                return {'kind': 'localcontainer', 'name': o['name'], 'id': o['id']}
            return {'kind': 'other'}
        return {'kind': 'other'}

    def make_item(self, e, tgt, n, st, frame):
        if tgt['kind'] == 'member':
            f = tgt['field']
            it = Item(kind='field', path=tgt['path'], width=n, line=e['l'], file=frame.fn['file'], fn=frame.fn['name'],
                      via=frame.chain, src='member', target_size=tgt['target_size'])
            it.extra = {'scalar': f.get('kind') in ('int', 'bool', 'enum', 'float'), 'kind': f.get('kind'), 'rec': f.get('rec')}
            return it
        if tgt['kind'] == 'container':
            f = tgt['field']
            fixed = f.get('rec') == 'std::array'
            it = Item(kind='field' if fixed else 'bytes', path=tgt['path'], width=n, elem=tgt['elem'], line=e['l'],
                      file=frame.fn['file'], fn=frame.fn['name'], via=frame.chain, src='container',
                      target_size=(f['count'] * tgt['elem']) if fixed else None)
            it.extra = {'scalar': False, 'kind': 'container', 'rec': f.get('rec'), 'trivCopy': tgt.get('trivCopy', True),
                        'elem_t': f['elem'].get('t')}
            return it
        if tgt['kind'] == 'localcontainer' and (frame.key, tgt['id']) in st.lsz:
            return Item(kind='bytes', path=None, width=n, elem=1, line=e['l'], file=frame.fn['file'], fn=frame.fn['name'],
                        via=frame.chain, src='localbuf', extra={'name': tgt['name'], 'id': tgt['id'], 'cap': st.lsz[(frame.key, tgt['id'])]})
        if tgt['kind'] == 'local':
            return Item(kind='field', path=None, width=n, line=e['l'], file=frame.fn['file'], fn=frame.fn['name'],
                        via=frame.chain, src='local', target_size=tgt.get('target_size'), extra={'name': tgt['name'], 'id': tgt['id']})
        return Item(kind='field', path=None, width=n, line=e['l'], file=frame.fn['file'], fn=frame.fn['name'],
                    via=frame.chain, src='other', extra={})

    def bound_check(self, it, st, frame, rule):
        """B1/B2: the byte count must be provably within the buffer the pointer designates"""
        n = it.width
        if it.src == 'container' and it.kind == 'bytes':
            cap = self.container_size(it.path, st).scale(it.elem or 1)
            d = cap - n
            ok = d.is_const() and d.c >= 0
            if not ok:
                # a narrowed length only lowers the count: trunc(X) <= X for X >= 0
                d2 = cap - sym.drop_trunc(n)
                ok = d2.is_const() and d2.c >= 0 and self.mode == 'write'
            capdesc = '%s.size()*%d = %r' % (fmt_path(it.path), it.elem or 1, cap)
        elif it.src == 'localbuf':
            cap = it.extra['cap']
            d = cap - n
            ok = d.is_const() and d.c >= 0
            if not ok and cap.is_const() and len(n.t) == 1 and n.c == 0:
                # x % K < K for the unsigned sizes of the format
                (t_, k_), = n.t.items()
                if k_ == 1 and t_[0] == 'op' and t_[1] == '%' and isinstance(t_[3], Lin) and t_[3].is_const() and 0 < t_[3].c <= cap.c + 1:
                    ok = True
            capdesc = 'local buffer %s.size() = %r' % (it.extra.get('name'), cap)
        elif it.target_size is not None:
            ok = n.is_const() and n.c <= it.target_size
            if not ok and len(n.t) == 1 and n.c == 0:
                # min(x, K) with K <= sizeof
                (t_, k_), = n.t.items()
                if k_ == 1 and t_[0] == 'op' and t_[1] == 'min' and any(isinstance(a_, Lin) and a_.is_const() and 0 <= a_.c <= it.target_size for a_ in t_[2:]):
                    ok = True
            capdesc = 'sizeof = %d' % it.target_size
        else:
            ok = False
            capdesc = 'unknown buffer'
        if not ok:
            st.viol.append({'rule': rule, 'key': 'sink:' + (fmt_path(it.path) if it.path is not None else 'local'),
                            'line': it.line, 'file': it.file, 'fn': it.fn,
                            'what': 'byte count %r is not bounded by the buffer (%s)' % (n, capdesc)})
        return ok

    def prim_read(self, e, st, frame):
        if self.mode != 'read':
            self.broken('stream read inside a %s function' % self.mode, e, frame)
        tgt = self.ptr_target(e['args'][0], frame)
        if tgt['kind'] == 'localcontainer' and (frame.key, tgt['id']) in st.lsz:
            st.lzero.discard((frame.key, tgt['id']))
            # bytes read into a local scratch buffer are consumed and discarded: a skip - but one that, unlike seekg, fails on a short stream
            outs = []
            for s2, n in self.ev(e['args'][1], st, frame):
                it = self.make_item(e, tgt, n, s2, frame)
                self.bound_check(it, s2, frame, 'B1')
                outs += self.prim_skip(e, s2, frame, 'seekg', count_arg=1, by_read=True, buffer=tgt['name'])
            return outs
        outs = []
        for s2, n in self.ev(e['args'][1], st, frame):
            it = self.make_item(e, tgt, n, s2, frame)
            outs.extend(self.do_read_item(it, s2, frame))
        return outs

    def do_read_item(self, it, st, frame):
        self.bound_check(it, st, frame, 'B1')
        st.items.append(it)
        chunk = None
        if self.stream is not None:
            w0 = sym.subst_eq(sym.drop_trunc(it.width), st.guards)
            if w0.is_const() and w0.c == 0:
                return [st]
        if self.stream is not None:
            while st.pos < len(self.stream) and self.stream[st.pos].width.is_const() and self.stream[st.pos].width.c == 0:
                st.pos += 1
            if st.pos >= len(self.stream):
                st.viol.append({'rule': 'L1', 'key': 'overrun:' + (fmt_path(it.path) if it.path else 'local'), 'line': it.line,
                                'file': it.file, 'fn': it.fn,
                                'what': 'reader consumes %s but the writer emitted nothing more' % it.desc()})
                st.dead = True
                return [st]
            chunk = self.stream[st.pos]
            st.pos += 1
            st.pairs.append((chunk, it))
            if sym.drop_trunc(chunk.width) != sym.drop_trunc(it.width):
                st.viol.append({'rule': 'L1', 'key': 'width:' + (fmt_path(it.path) if it.path else 'local'), 'line': it.line,
                                'file': it.file, 'fn': it.fn,
                                'what': 'reader consumes %s where the writer emitted %s' % (it.desc(), chunk.desc())})
                st.dead = True
                return [st]
        if it.src == 'member' and it.extra != 'resync' and it.extra.get('scalar') or it.extra == 'resync':
            if chunk is not None and chunk.value is not None:
                st.menv[it.path] = chunk.value
            else:
                st.nin += 1
                st.menv[it.path] = self.sym_member('in', it.path, st, st.nin)
        elif it.path is not None:
            st.nin += 1
            st.content[it.path] = ('stream', st.nin) if chunk is None else ('from', chunk.path)
        elif it.src == 'local':
            st.nin += 1
            st.lenv[(frame.key, it.extra['id'])] = Lin.term(('in', ('$' + it.extra['name'],), st.nin))
        return [st]

    def prim_write(self, e, st, frame):
        if self.mode != 'write':
            self.broken('stream write inside a %s function' % self.mode, e, frame)
        tgt = self.ptr_target(e['args'][0], frame)
        if tgt['kind'] == 'localcontainer' and (frame.key, tgt['id']) in st.lzero:
            # n bytes out of a local buffer that holds nothing but zeros: what skipp(n) writes
            outs = []
            for s2, n in self.ev(e['args'][1], st, frame):
                it = self.make_item(e, tgt, n, s2, frame)
                self.bound_check(it, s2, frame, 'B2')
                outs += self.prim_skip(e, s2, frame, 'skipp', count_arg=1, buffer=tgt['name'])
            return outs
        outs = []
        for s2, n in self.ev(e['args'][1], st, frame):
            it = self.make_item(e, tgt, n, s2, frame)
            self.bound_check(it, s2, frame, 'B2')
            if it.src == 'member' and it.extra.get('scalar'):
                it.value = self.member_value(it.path, s2, frame, it.line, consult=False)
            s2.items.append(it)
            outs.append(s2)
        return outs

    def prim_skip(self, e, st, frame, which, count_arg=0, by_read=False, buffer=None):
        if (which == 'seekg') != (self.mode == 'read'):
            self.broken('%s inside a %s function' % (which, self.mode), e, frame)
        outs = []
        for s2, n in self.ev(e['args'][count_arg], st, frame):
            it = Item(kind='pad', path=None, width=n, line=e['l'], file=frame.fn['file'], fn=frame.fn['name'], via=frame.chain,
                      src='pad', extra=dict({'by_read': True} if by_read else {}, **({'buffer': buffer} if buffer else {})))
            s2.items.append(it)
            if self.stream is not None and self.mode == 'read':
                if n.is_const() and n.c == 0:
                    outs.append(s2)
                    continue
                while s2.pos < len(self.stream) and self.stream[s2.pos].width.is_const() and self.stream[s2.pos].width.c == 0:
                    s2.pos += 1
                if s2.pos >= len(self.stream):
                    # a reader pad beyond the writer's output is only acceptable if it is provably empty
                    if not (n.is_const() and n.c == 0):
                        s2.viol.append({'rule': 'L5', 'key': 'pad-overrun', 'line': it.line, 'file': it.file, 'fn': it.fn,
                                        'what': 'reader skips %r bytes the writer never emitted' % n})
                else:
                    chunk = self.stream[s2.pos]
                    s2.pos += 1
                    s2.pairs.append((chunk, it))
                    if chunk.kind != 'pad' or sym.drop_trunc(chunk.width) != sym.drop_trunc(n):
                        s2.viol.append({'rule': 'L5' if chunk.kind == 'pad' else 'L7', 'key': 'pad:' + repr(n), 'line': it.line,
                                        'file': it.file, 'fn': it.fn,
                                        'what': 'reader skips %r bytes where the writer emitted %s' % (n, chunk.desc())})
                        s2.dead = True
            outs.append(s2)
        return outs

    def prim_resize(self, e, st, frame):
        o = strip_all_casts(e['obj'])
        if isinstance(o, dict) and o.get('k') == 'Ref' and o.get('dk') == 'local' and (frame.key, o['id']) in st.lsz:
            outs = []
            for s2, n in self.ev(e['args'][0], st, frame):
                s2.lsz[(frame.key, o['id'])] = n
                outs.append(s2)
            return outs
        path = self.abs_path(e['obj'], frame)
        if path is None:
            self.broken('resize on a non-member', e, frame)
        outs = []
        for s2, n in self.ev(e['args'][0], st, frame):
            s2.sz[path] = n
            s2.content[path] = ('resized', e['l'])
            s2.assigned.append((path + ('.size()',), n, e.get('l'), None, frame.fn['name'], len(s2.items)))
            outs.append(s2)
        return outs

    # ------------------------------------------------------------------ calls
    def resolve_call(self, e, frame):
        """returns (function, new prefix, dynamic class of the callee's this)"""
        obj = e.get('obj')
        simple = e['fn']
        o = strip_all_casts(obj) if obj is not None else None
        if e.get('cstatic') or obj is None:
            fns = self.F.functions.get(e['callee'], [])
            prefix, dyn = frame.prefix, frame.dyn_cls
        elif o.get('k') == 'This':
            prefix = frame.prefix
            dyn = frame.dyn_cls
            if e.get('virt'):
                fns = self.F.method(dyn, simple)
                fns = [f for f in fns if f['sig'] == e['csig']] or fns
            else:
                fns = self.F.functions.get(e['callee'], [])
        else:
            p = self.abs_path(o, frame)
            if p is None:
                self.broken('call on an object that is neither this nor a sub-object member', e, frame)
            _, f = self.field_info(self.cls, p)
            if f is None or f.get('kind') != 'record':
                self.broken('call on non-record member ' + fmt_path(p), e, frame)
            dyn = f['t']
            prefix = p
            fns = self.F.method(dyn, simple) if e.get('virt') else self.F.functions.get(e['callee'], [])
        fns = [f for f in fns if f['sig'] == e['csig']] or fns
        if len(fns) != 1:
            self.broken('cannot resolve callee %s (%d candidates)' % (e.get('callee'), len(fns)), e, frame)
        return fns[0], prefix, dyn

    def call_inline(self, e, st, frame):
        fn, prefix, dyn = self.resolve_call(e, frame)
        return self.call_bound(fn, prefix, dyn, e, st, frame)

    def call_bound(self, fn, prefix, dyn, e, st, frame, inherit=None, stream_this=False):
        nf = Frame(fn, prefix, dyn, frame.depth + 1, frame.chain + (fn['name'],))
        nf.stream_this = stream_this
        if inherit is not None:
            # a lambda sees the enclosing function's stream parameter, locals and aliases (capture by reference)
            nf.file_parm_ids |= inherit.file_parm_ids
            nf.obj_alias.update(inherit.obj_alias)
            nf.ptr_alias.update(inherit.ptr_alias)
            nf.key = inherit.key if False else nf.key
            nf.outer_key = inherit.key
        states = [st]
        for p, a in zip(fn['params'], e.get('args', [])):
            if ABSTRACT_FILE in p['t']:
                if not self.is_file_parm(a, frame):
                    self.broken('a different stream is passed down to ' + fn['name'], e, frame)
                continue
            t = p.get('t', '')
            if '&' in t or t.endswith('*'):
                # a reference / pointer to (part of) the object: the parameter designates that member path
                tgt = strip_all_casts(a)
                addr = False
                while isinstance(tgt, dict) and tgt.get('k') == 'Un' and tgt.get('op') in ('*', '&'):
                    addr = addr or tgt['op'] == '&'
                    tgt = strip_all_casts(tgt['sub'])
                if isinstance(tgt, dict) and tgt.get('k') == 'This':
                    nf.obj_alias[p['name']] = frame.prefix
                    continue
                if isinstance(tgt, dict) and tgt.get('k') == 'Call' and tgt.get('fn') == 'data' and tgt.get('ck') == 'member':
                    cp = self.abs_path(tgt['obj'], frame)
                    if cp is not None:
                        nf.ptr_alias[p['name']] = ('data', cp)
                        continue
                ap = self.abs_path(tgt, frame) if isinstance(tgt, dict) else None
                if ap is None:
                    self.broken('helper %s gets a reference/pointer that is not (part of) the object' % fn['name'], e, frame)
                if t.endswith('*'):
                    nf.ptr_alias[p['name']] = ('addr', ap)
                else:
                    nf.obj_alias[p['name']] = ap
                continue
            nxt = []
            for cur in states:
                for s2, v in self.ev(a, cur, frame):
                    s2.lenv[(nf.key, p['id'])] = v
                    nxt.append(s2)
            states = nxt
        outs = []
        for cur in states:
            saved = cur.ret
            cur.ret = None
            for s2 in self.exec_fn(nf, cur):
                rv = s2.ret
                s2.ret = saved
                outs.append((s2, rv))
        return outs

    @staticmethod
    def _as_lambda(init):
        x = init
        for _ in range(4):
            if not isinstance(x, dict):
                return None
            if x.get('k') == 'Lambda':
                return x
            if x.get('k') == 'Cast':
                x = x.get('sub')
            elif x.get('k') == 'Construct' and x.get('args'):
                x = x['args'][0]
            else:
                return None
        return None

    # ------------------------------------------------------------------ numeric evaluation
    def ev(self, e, st, frame):
        """-> list of (state, Lin)"""
        if e is None:
            self.broken('missing expression', {}, frame)
        k = e.get('k')
        if 'v' in e and k in ('Lit', 'Sizeof', 'Ref', 'Cast', 'Bin', 'Un') and self._is_pure_const(e):
            return [(st, Lin(e['v']))]
        if k == 'Cast':
            if e.get('cast') == 'IntegralToBoolean':
                return [(s2, Lin(1 if t else 0)) for s2, t in self.ev_cond(e, st, frame)]
            ts, fs = self.type_size(e.get('t')), self.type_size(e.get('from'))
            if e.get('cast') == 'IntegralCast' and ts in (1, 2) and fs and fs > ts and 'bool' not in (e.get('t') or ''):
                # narrowing to 8/16 bits: exact unless the operand provably fits (64->32 bit narrowing of container sizes is
                # treated as exact: containers hold less than 4 GiB)
                outs = []
                for s2, v in self.ev(e['sub'], st, frame):
                    outs.append((s2, v if self.fits(v, 8 * ts) else sym.trunc(v, 8 * ts)))
                return outs
            return self.ev(e['sub'], st, frame)
        if k == 'Lit':
            if 'v' in e:
                return [(st, Lin(e['v']))]
            self.broken('literal', e, frame)
        if k == 'Sizeof':
            if 'v' in e:
                return [(st, Lin(e['v']))]
            self.broken('sizeof without value', e, frame)
        if k == 'Ref':
            if e.get('dk') in ('local', 'parm'):
                key = (frame.key, e['id'])
                if key in st.lenv:
                    return [(st, st.lenv[key])]
                if frame.outer_key is not None and (frame.outer_key, e['id']) in st.lenv:
                    return [(st, st.lenv[(frame.outer_key, e['id'])])]
                if e.get('dk') == 'parm' and e.get('name') in frame.obj_alias:
                    # a scalar member handed in by reference
                    return [(st, self.member_value(frame.obj_alias[e['name']], st, frame, e.get('l')))]
                return [(st, Lin.term(('local', e['name'])))]
            if 'v' in e:
                return [(st, Lin(e['v']))]
            self.broken('reference to ' + e.get('q', '?'), e, frame)
        if k == 'Member' and e.get('dk') == 'field':
            path = self.abs_path(e, frame)
            if path is None:
                self.broken('member of a non-this object', e, frame)
            return [(st, self.member_value(path, st, frame, e.get('l')))]
        if k == 'Bin':
            o = e['op']
            if o in ('+', '-', '*', '/', '%', '&', '|', '^', '<<', '>>'):
                outs = []
                for s1, a in self.ev(e['lhs'], st, frame):
                    for s2, b in self.ev(e['rhs'], s1, frame):
                        outs.append((s2, sym.op(o, a, b)))
                return outs
            if o in ('<', '<=', '>', '>=', '==', '!=', '&&', '||'):
                return [(s2, Lin(1 if t else 0)) for s2, t in self.ev_cond(e, st, frame)]
            self.broken('binary operator ' + o, e, frame)
        if k == 'Un':
            o = e['op']
            if o == '-':
                return [(s2, -v) for s2, v in self.ev(e['sub'], st, frame)]
            if o == '+':
                return self.ev(e['sub'], st, frame)
            if o == '!':
                return [(s2, Lin(1 if t else 0)) for s2, t in self.ev_cond(e, st, frame)]
            if o == '~':
                return [(s2, Lin(~v.c) if v.is_const() else Lin.term(('op', '~', v))) for s2, v in self.ev(e['sub'], st, frame)]
            self.broken('unary operator ' + o, e, frame)
        if k == 'Cond':
            outs = []
            for s2, t in self.ev_cond(e['cond'], st, frame):
                outs.extend(self.ev(e['then'] if t else e['else'], s2, frame))
            return outs
        if k == 'Call':
            if e.get('ck') == 'member' and e.get('fn') == 'size' and not e.get('calleeInRoot'):
                path = self.abs_path(e['obj'], frame)
                if path is None:
                    self.broken('size() on a non-member', e, frame)
                return [(st, self.container_size(path, st))]
            if e.get('ck') == 'member' and e.get('fn') == 'empty' and not e.get('calleeInRoot') and not e.get('args'):
                return [(s2, Lin(1 if t else 0)) for s2, t in self.ev_cond(e, st, frame)]
            if e.get('callee') in ('std::max', 'std::min') and len(e.get('args', [])) == 2:
                outs = []
                for s1, a in self.ev(e['args'][0], st, frame):
                    for s2, b in self.ev(e['args'][1], s1, frame):
                        outs.append((s2, sym.minmax(e['callee'][5:], a, b)))
                return outs
            if e.get('calleeInRoot') and e.get('ck') in ('member', 'function'):
                outs = []
                for s2, rv in self.call_inline(e, st, frame):
                    if s2.thrown:
                        outs.append((s2, Lin(0)))
                        continue
                    if isinstance(rv, bool):
                        rv = Lin(1 if rv else 0)
                    if not isinstance(rv, Lin):
                        self.broken('call %s returns no value' % e.get('callee'), e, frame)
                    outs.append((s2, rv))
                return outs
            if not e.get('calleeInRoot') and e.get('callee'):
                # a library function outside the repository (strlen, ...): an opaque value of its rendered arguments
                return [(st, Lin.term(('call', '%s(%s)' % (e['callee'], ', '.join(self.render(a, frame) for a in e.get('args', [])))) ))]
            self.broken('call to ' + str(e.get('callee')), e, frame)
        if k == 'DefaultArg':
            return self.ev(e['e'], st, frame)
        self.broken('expression kind ' + str(k), e, frame)

    def render(self, e, frame):
        e = strip_all_casts(e)
        if not isinstance(e, dict):
            return '?'
        p = self.abs_path(e, frame) if e.get('k') in ('Member', 'This') else None
        if p is not None:
            return fmt_path(p)
        if e.get('k') == 'Call':
            o = self.render(e['obj'], frame) + '.' if e.get('obj') is not None else ''
            return '%s%s(%s)' % (o, e.get('fn'), ', '.join(self.render(a, frame) for a in e.get('args', [])))
        if 'v' in e:
            return str(e['v'])
        if e.get('k') == 'Ref':
            return e.get('name', '?')
        if e.get('k') == 'Bin':
            return '(%s %s %s)' % (self.render(e['lhs'], frame), e['op'], self.render(e['rhs'], frame))
        return e.get('k', '?')

    def _is_pure_const(self, e):
        return True

    def fits(self, v, bits):
        if v.is_const():
            return 0 <= v.c < (1 << bits)
        if v.c == 0 and len(v.t) == 1:
            (t, k), = v.t.items()
            b = self.bounds.get(t)
            if k == 1 and b and b[0] >= 0 and b[1] < (1 << bits):
                return True
        return False

    # ------------------------------------------------------------------ conditions
    def ev_cond(self, e, st, frame):
        """-> list of (state, bool); appends the decided guards to the state"""
        e0 = e
        e = strip(e)
        k = e.get('k')
        if k == 'Cast' and e.get('cast') == 'IntegralToBoolean':
            return self.ev_cond(e['sub'], st, frame)
        if k == 'Cast':
            return self.ev_cond(e['sub'], st, frame)
        if 'v' in e and k in ('Lit', 'Ref'):
            return [(st, bool(e['v']))]
        if k == 'Un' and e['op'] == '!':
            return [(s2, not t) for s2, t in self.ev_cond(e['sub'], st, frame)]
        if k == 'Bin' and e['op'] == '&&':
            outs = []
            for s1, t1 in self.ev_cond(e['lhs'], st, frame):
                if not t1:
                    outs.append((s1, False))
                else:
                    outs.extend(self.ev_cond(e['rhs'], s1, frame))
            return outs
        if k == 'Bin' and e['op'] == '||':
            outs = []
            for s1, t1 in self.ev_cond(e['lhs'], st, frame):
                if t1:
                    outs.append((s1, True))
                else:
                    outs.extend(self.ev_cond(e['rhs'], s1, frame))
            return outs
        if k == 'Bin' and e['op'] in ('<', '<=', '>', '>=', '==', '!='):
            outs = []
            for s1, a in self.ev(e['lhs'], st, frame):
                for s2, b in self.ev(e['rhs'], s1, frame):
                    g = sym.g_cmp(a, e['op'], b)
                    outs.extend(self.split(g, s2))
            return outs
        if k == 'Bin' and e['op'] == '&':
            outs = []
            for s1, a in self.ev(e['lhs'], st, frame):
                for s2, b in self.ev(e['rhs'], s1, frame):
                    if b.is_const():
                        g = sym.g_bits(a, b.c)
                    elif a.is_const():
                        g = sym.g_bits(b, a.c)
                    else:
                        g = sym.g_cmp(sym.op('&', a, b), '!=', Lin(0))
                    outs.extend(self.split(g, s2))
            return outs
        if k == 'Call' and e.get('ck') == 'member' and e.get('fn') == 'empty' and not e.get('calleeInRoot') and not e.get('args'):
            # container.empty()  <=>  container.size() == 0
            path = self.abs_path(e['obj'], frame)
            if path is None:
                self.broken('empty() on a non-member', e, frame)
            return self.split(sym.g_cmp(self.container_size(path, st), '==', Lin(0)), st)
        if k == 'Call' and e.get('calleeInRoot') and e.get('ck') == 'member':
            outs = []
            for s2, rv in self.call_inline(e, st, frame):
                if isinstance(rv, bool):
                    outs.append((s2, rv))
                elif isinstance(rv, Lin):
                    outs.extend(self.split(sym.g_cmp(rv, '!=', Lin(0)), s2))
                else:
                    self.broken('condition calls %s which returns no value' % e.get('callee'), e, frame)
            return outs
        # generic: numeric value != 0
        outs = []
        for s2, v in self.ev(e, st, frame):
            outs.extend(self.split(sym.g_cmp(v, '!=', Lin(0)), s2))
        return outs

    def split(self, g, st):
        if isinstance(g, bool):
            return [(st, g)]
        ts = sym.decide(g, st.guards, self.bounds)
        if not ts:
            # the path itself is infeasible; keep one side so that it dies quietly
            st.dead = True
            st.infeasible = True
            return [(st, False)]
        if len(ts) == 1:
            # already implied by what is known on this path
            return [(st, ts[0])]
        outs = []
        for i, t in enumerate(ts):
            s2 = st if i == len(ts) - 1 else st.fork()
            s2.guards.append(g if t else sym.g_not(g))
            outs.append((s2, t))
        return outs
