#!/bin/bash
# confirm_seed.sh <worktree> <variant>: independent confirmation of a seeded change in a scratch worktree
# (compiles, 124 tests pass, demo fails with the change and passes without). Prints one JSON line.
wt=$1; v=$2
cd "$wt" || exit 2
git checkout -q -- . 2>/dev/null
s=seed_out/$v
git apply "$s/patch.diff" || { echo "{\"seed\":\"$wt/$v\",\"apply\":false}"; exit 1; }
cmake -G Ninja -S . -B _b -DOPTION_RUN_DOXYGEN=OFF -DOPTION_BUILD_TESTS=ON >/dev/null 2>&1
ninja -C _b >/dev/null 2>&1; build=$?
tests=$(ctest --test-dir _b -j8 --timeout 120 -E '^(File|ObjectHeaderBase)$' 2>&1 | grep -E "tests passed" | head -1)
( cd $s && timeout 900 bash ./build_and_run.sh >/tmp/seed_demo_with.log 2>&1 ); with=$?
git checkout -q -- src
ninja -C _b >/dev/null 2>&1
( cd $s && timeout 900 bash ./build_and_run.sh >/tmp/seed_demo_without.log 2>&1 ); without=$?
rm -rf _b
echo "{\"seed\":\"$wt/$v\",\"apply\":true,\"build_rc\":$build,\"tests\":\"$tests\",\"demo_with_change_rc\":$with,\"demo_without_change_rc\":$without}"
