#!/usr/bin/env python3
"""regenerates the table of seeded changes in DESIGN.md (between the SEEDED-TABLE markers) from seeded/*/meta.json"""
import glob, json, os, re
rows = []
for d in sorted(glob.glob('/verif/seeded/*')):
    if not os.path.exists(os.path.join(d, 'meta.json')):
        continue
    m = json.load(open(os.path.join(d, 'meta.json')))
    sid = m.get('seed_id', os.path.basename(d))
    summ = re.sub(r'\s+', ' ', m.get('summary', ''))[:230]
    needs = re.sub(r'\s+', ' ', m.get('needs', ''))[:200]
    caught = []
    for p, c in sorted(m.get('checks', {}).items()):
        if c['exit'] == 1:
            rules = sorted({r.split()[1] for r in c['reports'] if r.startswith('rule ')})
            caught.append('%s (%s)' % (p, ', '.join(rules)))
        elif c['exit'] == 2:
            caught.append('%s (exit 2)' % p)
        else:
            caught.append('%s silent' % p)
    conf = m.get('confirmed_by_us') or {}
    ok = conf.get('build_rc') == 0 and '0 tests failed' in (conf.get('tests') or '') and conf.get('demo_with_change_rc', 0) != 0 and conf.get('demo_without_change_rc') == 0
    if m.get('obsolete'):
        caught = ['(obsolete - see meta.json: a later root fix removed the mechanism; was reported by ' + '; '.join(caught) + ')']
    rows.append('| %s | %s | %s | %s | %s |' % (sid, summ.replace('|', '/'), needs.replace('|', '/'), '; '.join(caught), 'yes' if ok else 'NO'))
table = '| id | change | needs | reported by | confirmed (builds, 124 tests pass, demo fails with / passes without) |\n|----|--------|-------|-------------|------|\n' + '\n'.join(rows)
p = '/verif/DESIGN.md'
s = open(p).read()
a, b = '<!-- SEEDED-TABLE-BEGIN -->', '<!-- SEEDED-TABLE-END -->'
if a in s:
    s = s[:s.index(a) + len(a)] + '\n' + table + '\n' + s[s.index(b):]
    open(p, 'w').write(s)
print(len(rows), 'rows')
