#!/usr/bin/env python3
"""save_seed_scratch.py <worktree> <variant> <id> <prop> [<prop>...]
Like save_seed.py, but the checks are run against a scratch copy of /repo with the patch applied (bin/check --repo), so that /repo itself
is not touched (used while a thorough pass is running).  Records the confirmation line (tools/confirm_seed.sh) and the check results."""
import glob, json, os, shutil, subprocess, sys, tempfile
wt, v, sid = sys.argv[1:4]
props = sys.argv[4:]
src = os.path.join(wt, 'seed_out', v)
dst = os.path.join('/verif/seeded', sid)
os.makedirs(dst, exist_ok=True)
for f in os.listdir(src):
    p = os.path.join(src, f)
    if os.path.isfile(p) and os.path.getsize(p) < 400000:
        shutil.copy(p, dst)
meta = json.load(open(os.path.join(src, 'meta.json')))
conf = None
for lf in glob.glob('/tmp/confirm_*.log'):
    for l in open(lf):
        if l.startswith('{') and ('"%s/%s"' % (wt, v)) in l:
            conf = json.loads(l)
meta['confirmed_by_us'] = conf
tmp = tempfile.mkdtemp(prefix='vblf_save_')
caught = {}
try:
    rp = os.path.join(tmp, 'repo')
    subprocess.check_call(['rsync', '-a', '--exclude', '_build', '--exclude', '.git', '/repo/', rp + '/'])
    subprocess.check_call(['patch', '-p1', '-s', '--no-backup-if-mismatch', '-d', rp, '-i', os.path.join(src, 'patch.diff')])
    for p in props:
        r = subprocess.run(['/verif/bin/check', p, '--repo', rp, '--no-evidence'], capture_output=True, text=True, env=dict(os.environ, VERIF_NO_CONTROL='1'))
        lines = [l.strip() for l in r.stdout.splitlines() if l.strip().startswith('rule ')]
        caught[p] = {'exit': r.returncode, 'reports': [l[:300] for l in lines[:4]], 'n_reports': len(lines)}
finally:
    shutil.rmtree(tmp, ignore_errors=True)
meta['checks'] = caught
meta['seed_id'] = sid
meta['base_commit'] = subprocess.check_output(['git', '-C', wt, 'rev-parse', '--short', 'HEAD'], text=True).strip()
json.dump(meta, open(os.path.join(dst, 'meta.json'), 'w'), indent=1)
print(sid, {p: (c['exit'], c['n_reports']) for p, c in caught.items()})
