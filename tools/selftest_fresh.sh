#!/bin/bash
# simulates the harness: fresh clone of the committed /verif, setup_cmd, every quick_cmd once, evidence validation
set -e
D=$(mktemp -d /tmp/verif_fresh.XXXXXX)
trap 'rm -rf "$D"' EXIT
git clone -q /verif "$D/verif"
cd "$D/verif"
t0=$(date +%s)
$(python3 -c "import json;print(json.load(open('MANIFEST.json'))['setup_cmd'])")
echo "setup: $(( $(date +%s) - t0 )) s"
python3 - <<'PY'
import json, subprocess, time, os
m = json.load(open('MANIFEST.json'))
bad = 0
for c in m['checks']:
    ev = c['evidence_file']
    if os.path.exists(ev):
        os.remove(ev)
    t = time.time()
    r = subprocess.run(c['quick_cmd'], shell=True, capture_output=True, text=True)
    dt = time.time() - t
    viol = [l for l in r.stdout.splitlines() if l.startswith('VIOLATION')]
    ok = r.returncode == 0 and not viol and os.path.exists(ev)
    print('%s rc=%d %.1fs evidence=%s %s' % (c['property_id'], r.returncode, dt, os.path.exists(ev), '' if ok else 'PROBLEM: ' + r.stdout[-300:]))
    bad += 0 if ok else 1
print('problems:', bad)
PY
/opt/veriftools/pyvenv/bin/python - <<'PY'
import json, jsonschema, glob
s = json.load(open('/root/.vp/EVIDENCE.schema.json'))
for f in sorted(glob.glob('evidence/C*.json')):
    jsonschema.validate(json.load(open(f)), s)
jsonschema.validate(json.load(open('MANIFEST.json')), json.load(open('/root/.vp/MANIFEST.schema.json')))
print('schemas ok:', len(glob.glob('evidence/C*.json')), 'evidence files')
PY
