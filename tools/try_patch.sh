#!/bin/bash
# try_ben.sh <patch> <props...>: apply a patch to a scratch copy and list new failures
p=$1; shift
d=$(mktemp -d /tmp/tryb_XXXX); rsync -a --exclude _build --exclude .git /repo/ $d/repo/
patch -p1 -s -d $d/repo -i $p || { echo "patch failed"; rm -rf $d; exit 1; }
for pr in "$@"; do VERIF_NO_CONTROL=1 /verif/bin/check $pr --repo $d/repo --no-evidence 2>&1 | grep -E "VIOLATION|^   rule|ANALYSIS|UNDECIDED|obligations" | cut -c1-600; done
rm -rf $d
