#!/usr/bin/env python3
"""save_seed.py <worktree> <variant> <id> <prop> [<prop>...]
Copies a sub-agent's seeded change into /verif/seeded/<id>/ and records (a) the independent confirmation
(confirm_seed.sh output) and (b) which checks report it when the patch is applied to /repo (applied and undone here)."""
import glob, json, os, shutil, subprocess, sys
wt, v, sid = sys.argv[1:4]
props = sys.argv[4:]
src = os.path.join(wt, 'seed_out', v)
dst = os.path.join('/verif/seeded', sid)
os.makedirs(dst, exist_ok=True)
for f in os.listdir(src):
    p = os.path.join(src, f)
    if os.path.isfile(p) and os.path.getsize(p) < 400000:
        shutil.copy(p, dst)
meta = json.load(open(os.path.join(src, 'meta.json')))
conf = None
for lf in glob.glob('/tmp/confirm_*.log'):
    for l in open(lf):
        if l.startswith('{') and ('"%s/%s"' % (wt, v)) in l:
            conf = json.loads(l)
meta['confirmed_by_us'] = conf
subprocess.check_call(['git', '-C', '/repo', 'apply', os.path.join(src, 'patch.diff')])
caught = {}
try:
    for p in props:
        r = subprocess.run(['/verif/bin/check', p, '--no-evidence'], capture_output=True, text=True, env=dict(os.environ, VERIF_NO_CONTROL='1'))
        lines = [l.strip() for l in r.stdout.splitlines() if l.strip().startswith('rule ')]
        caught[p] = {'exit': r.returncode, 'reports': [l[:300] for l in lines[:4]], 'n_reports': len(lines)}
finally:
    subprocess.check_call(['git', '-C', '/repo', 'checkout', '--', '.'])
meta['checks'] = caught
meta['seed_id'] = sid
meta['base_commit'] = subprocess.check_output(['git', '-C', wt, 'rev-parse', '--short', 'HEAD'], text=True).strip()
json.dump(meta, open(os.path.join(dst, 'meta.json'), 'w'), indent=1)
print(sid, {p: (c['exit'], c['n_reports']) for p, c in caught.items()})
