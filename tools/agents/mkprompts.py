#!/usr/bin/env python3
"""mkprompts.py <round> <worktree-prefix> <out-prefix> [ideas-file]: write one seeding prompt per property.

The prompt is tools/agents/seed_prompt.tmpl with the property text (title, statement, quantifier from properties.jsonl - nothing else from
/verif) and, from round 2 on, one truncated line per change already kept for that property ("do not repeat") plus a list of unused ideas."""
import json, os, sys
V = os.path.dirname(os.path.dirname(os.path.dirname(os.path.abspath(__file__))))
rnd, wt, out = sys.argv[1:4]
ideas = open(sys.argv[4]).read().strip() if len(sys.argv) > 4 else ''
tmpl = open(os.path.join(V, 'tools', 'agents', 'seed_prompt.tmpl')).read()
for l in open(os.path.join(V, 'properties.jsonl')):
    p = json.loads(l)
    pid = p['id']
    text = '%s: %s\n\n%s' % (pid, p.get('title', ''), p.get('statement', ''))
    if p.get('quantifier'):
        text += '\n\nQuantifier: ' + (p['quantifier']['text'] if isinstance(p['quantifier'], dict) else p['quantifier'])
    prev = []
    for sid in sorted(os.listdir(os.path.join(V, 'seeded'))):
        if sid.startswith(pid + '-'):
            m = json.load(open(os.path.join(V, 'seeded', sid, 'meta.json')))
            s = (m.get('summary') or '').replace('\n', ' ')
            if s:
                prev.append('  * ' + s[:230])
    t = tmpl.replace('__WT__', wt + pid).replace('__PROP__', text)
    extra = ''
    if prev:
        extra = ('Earlier rounds already produced the following changes for this property. Do NOT repeat these or close variants of them; find NEW '
                 'mechanisms and places.' + (' Ideas that have hardly been used yet: ' + ideas if ideas else '') + '\n' + '\n'.join(prev) + '\n\n')
    t = t.replace('Deliverables - create the directory', extra + 'Deliverables - create the directory', 1)
    open('%s%s.txt' % (out, pid), 'w').write(t)
    print(pid, len(t), len(prev))
