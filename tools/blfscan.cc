// blfscan - exports the type-checked program of one translation unit as JSON facts.
//
// No rule lives here (DESIGN.md 2.1): the tool only exports the resolved program -
// records (layout, fields, initialisers), enums (evaluated), functions (resolved callees,
// statement/expression trees, folded constants).  All rules are python passes over it.
//
// usage: blfscan -p <compdb-dir> --root=<src root> --out=<file.json> <source.cpp>

#include "clang/AST/ASTConsumer.h"
#include "clang/AST/ASTContext.h"
#include "clang/AST/DeclCXX.h"
#include "clang/AST/DeclTemplate.h"
#include "clang/AST/ExprCXX.h"
#include "clang/AST/RecordLayout.h"
#include "clang/AST/RecursiveASTVisitor.h"
#include "clang/AST/StmtCXX.h"
#include "clang/Frontend/CompilerInstance.h"
#include "clang/Frontend/FrontendAction.h"
#include "clang/Tooling/CommonOptionsParser.h"
#include "clang/Tooling/Tooling.h"
#include "llvm/Support/CommandLine.h"
#include "llvm/Support/JSON.h"
#include "llvm/Support/raw_ostream.h"

#include <map>
#include <set>
#include <string>

using namespace clang;
namespace json = llvm::json;

static llvm::cl::OptionCategory Cat("blfscan options");
static llvm::cl::opt<std::string> Root("root", llvm::cl::desc("source root to export"),
                                       llvm::cl::init("/repo/src"), llvm::cl::cat(Cat));
static llvm::cl::opt<std::string> Out("out", llvm::cl::desc("output json"),
                                      llvm::cl::init("-"), llvm::cl::cat(Cat));

namespace {

class Exporter {
  public:
    explicit Exporter(ASTContext & ctx) : Ctx(ctx), SM(ctx.getSourceManager()), PP(ctx.getLangOpts()) {
        PP.SuppressTagKeyword = true;
        PP.Bool = true;
        PP.FullyQualifiedName = true;
        PP.SuppressUnwrittenScope = true;
    }

    ASTContext & Ctx;
    SourceManager & SM;
    PrintingPolicy PP;
    std::map<const Decl *, int> Ids;
    json::Array Records, Enums, Functions;
    std::set<std::string> SeenRecords, SeenEnums;
    std::set<const Decl *> SeenFns;

    std::string fileOf(SourceLocation L) {
        if (L.isInvalid()) return "";
        SourceLocation E = SM.getExpansionLoc(L);
        return SM.getFilename(E).str();
    }
    bool inRoot(SourceLocation L) {
        std::string f = fileOf(L);
        return f.rfind(Root, 0) == 0;
    }
    int lineOf(SourceLocation L) {
        if (L.isInvalid()) return 0;
        return (int)SM.getExpansionLineNumber(L);
    }
    int idOf(const Decl * D) {
        D = D->getCanonicalDecl();
        auto it = Ids.find(D);
        if (it != Ids.end()) return it->second;
        int n = (int)Ids.size() + 1;
        Ids[D] = n;
        return n;
    }
    std::string typeStr(QualType T) {
        if (T.isNull()) return "";
        return T.getCanonicalType().getAsString(PP);
    }
    std::string qname(const NamedDecl * D) {
        if (const auto * S = dyn_cast<ClassTemplateSpecializationDecl>(D))
            return typeStr(Ctx.getRecordType(S));
        std::string s;
        llvm::raw_string_ostream os(s);
        D->printQualifiedName(os, PP);
        os.flush();
        return s;
    }
    // qualified name of the record without template arguments ("std::vector")
    std::string recBase(const CXXRecordDecl * R) {
        if (!R) return "";
        return R->getQualifiedNameAsString();
    }

    // ------------------------------------------------------------------ types
    json::Object typeInfo(QualType T) {
        json::Object o;
        o["t"] = typeStr(T);
        if (T.isNull() || T->isDependentType()) return o;
        QualType C = T.getCanonicalType();
        if (!C->isIncompleteType() && !C->isFunctionType() && !C->isVoidType() && !C->isReferenceType())
            o["size"] = (int64_t)Ctx.getTypeSizeInChars(C).getQuantity();
        if (C->isBooleanType()) o["kind"] = "bool";
        else if (C->isEnumeralType()) o["kind"] = "enum";
        else if (C->isIntegerType()) { o["kind"] = "int"; o["signed"] = C->isSignedIntegerType(); }
        else if (C->isFloatingType()) o["kind"] = "float";
        else if (C->isPointerType()) o["kind"] = "ptr";
        else if (C->isReferenceType()) o["kind"] = "ref";
        else if (C->isArrayType()) o["kind"] = "carray";
        else if (const CXXRecordDecl * R = C->getAsCXXRecordDecl()) {
            o["kind"] = "record";
            o["rec"] = recBase(R);
            if (R->hasDefinition()) {
                o["trivCopy"] = C.isTriviallyCopyableType(Ctx);
                o["aggregate"] = R->isAggregate();
                o["hasUserCtor"] = R->hasUserDeclaredConstructor();
            }
            if (auto * S = dyn_cast<ClassTemplateSpecializationDecl>(R)) {
                const TemplateArgumentList & A = S->getTemplateArgs();
                json::Array targs;
                for (unsigned i = 0; i < A.size(); i++) {
                    const TemplateArgument & a = A[i];
                    if (a.getKind() == TemplateArgument::Type) {
                        if (i == 0) {
                            json::Object e = typeInfo(a.getAsType());
                            o["elem"] = std::move(e);
                        }
                        targs.push_back(typeStr(a.getAsType()));
                    } else if (a.getKind() == TemplateArgument::Integral) {
                        o["count"] = a.getAsIntegral().getExtValue();
                        targs.push_back(a.getAsIntegral().getExtValue());
                    }
                }
                o["targs"] = std::move(targs);
            }
        }
        return o;
    }

    // ------------------------------------------------------------------ records
    void exportRecord(const CXXRecordDecl * R) {
        if (!R->isThisDeclarationADefinition() || R->isDependentContext() || R->isLambda()) return;
        if (!inRoot(R->getLocation())) return;
        std::string name = qname(R);
        if (!SeenRecords.insert(name).second) return;
        json::Object o;
        o["name"] = name;
        o["base_name"] = recBase(R);
        o["file"] = fileOf(R->getLocation());
        o["line"] = lineOf(R->getLocation());
        o["final"] = R->hasAttr<FinalAttr>();
        o["abstract"] = R->isAbstract();
        o["polymorphic"] = R->isPolymorphic();
        o["isUnion"] = R->isUnion();
        o["hasUserCtor"] = R->hasUserDeclaredConstructor();
        o["hasDefaultCtor"] = R->hasDefaultConstructor();
        json::Array bases;
        for (const auto & B : R->bases()) {
            if (const CXXRecordDecl * BR = B.getType()->getAsCXXRecordDecl()) bases.push_back(qname(BR));
        }
        o["bases"] = std::move(bases);
        bool layoutOk = !R->isInvalidDecl() && R->isCompleteDefinition();
        const ASTRecordLayout * L = layoutOk ? &Ctx.getASTRecordLayout(R) : nullptr;
        if (L) {
            o["size"] = (int64_t)L->getSize().getQuantity();
            o["dataSize"] = (int64_t)L->getDataSize().getQuantity();
        }
        json::Array fields;
        unsigned idx = 0;
        for (const FieldDecl * F : R->fields()) {
            json::Object f = typeInfo(F->getType());
            f["name"] = F->getNameAsString();
            f["qname"] = qname(F);
            f["line"] = lineOf(F->getLocation());
            f["hasInit"] = F->hasInClassInitializer();
            f["mutable"] = F->isMutable();
            f["access"] = (int)F->getAccess();
            if (F->hasInClassInitializer() && F->getInClassInitializer()) f["init"] = expr(F->getInClassInitializer());
            if (L) f["offset"] = (int64_t)(L->getFieldOffset(idx) / 8);
            fields.push_back(std::move(f));
            idx++;
        }
        o["fields"] = std::move(fields);
        // declared methods (also undefined ones): name, virtual, pure, access
        json::Array methods;
        for (const CXXMethodDecl * M : R->methods()) {
            if (M->isImplicit()) continue;
            json::Object m;
            m["name"] = M->getNameAsString();
            m["qname"] = qname(M);
            m["virtual"] = M->isVirtual();
            m["pure"] = M->isPure();
            m["const"] = M->isConst();
            m["static"] = M->isStatic();
            m["access"] = (int)M->getAccess();
            m["sig"] = typeStr(M->getType());
            m["deleted"] = M->isDeleted();
            m["defaulted"] = M->isDefaulted();
            if (isa<CXXConstructorDecl>(M)) m["kind"] = "ctor";
            else if (isa<CXXDestructorDecl>(M)) m["kind"] = "dtor";
            else m["kind"] = "method";
            methods.push_back(std::move(m));
        }
        o["methods"] = std::move(methods);
        Records.push_back(std::move(o));
    }

    void exportEnum(const EnumDecl * E) {
        if (!E->isThisDeclarationADefinition() || !inRoot(E->getLocation())) return;
        std::string name = qname(E);
        if (!SeenEnums.insert(name).second) return;
        json::Object o;
        o["name"] = name;
        o["file"] = fileOf(E->getLocation());
        o["line"] = lineOf(E->getLocation());
        o["underlying"] = typeStr(E->getIntegerType());
        json::Array es;
        for (const EnumConstantDecl * C : E->enumerators()) {
            json::Object c;
            c["name"] = C->getNameAsString();
            c["value"] = C->getInitVal().getExtValue();
            c["line"] = lineOf(C->getLocation());
            es.push_back(std::move(c));
        }
        o["enumerators"] = std::move(es);
        Enums.push_back(std::move(o));
    }

    // ------------------------------------------------------------------ functions
    void exportFunction(const FunctionDecl * F) {
        if (!F->isThisDeclarationADefinition() || !F->hasBody()) return;
        if (F->isDependentContext() || F->isImplicit()) return;
        if (F->isDefaulted() && !F->isExplicitlyDefaulted()) return;
        if (!inRoot(F->getLocation())) return;
        if (const auto * M = dyn_cast<CXXMethodDecl>(F))
            if (M->getParent()->isLambda()) return;  // exported inline with the lambda expression
        if (!SeenFns.insert(F->getCanonicalDecl()).second) return;
        json::Object o = functionHead(F);
        o["file"] = fileOf(F->getLocation());
        o["line"] = lineOf(F->getLocation());
        o["endLine"] = lineOf(F->getBodyRBrace());
        if (const auto * C = dyn_cast<CXXConstructorDecl>(F)) {
            json::Array inits;
            for (const CXXCtorInitializer * I : C->inits()) {
                json::Object i;
                i["written"] = I->isWritten();
                if (I->isBaseInitializer()) {
                    i["kind"] = "base";
                    if (const CXXRecordDecl * BR = I->getBaseClass()->getAsCXXRecordDecl()) i["name"] = qname(BR);
                } else if (I->isAnyMemberInitializer()) {
                    i["kind"] = "member";
                    i["name"] = I->getAnyMember()->getNameAsString();
                    i["qname"] = qname(I->getAnyMember());
                } else if (I->isDelegatingInitializer()) {
                    i["kind"] = "delegating";
                }
                if (I->getInit()) i["init"] = expr(I->getInit());
                inits.push_back(std::move(i));
            }
            o["inits"] = std::move(inits);
        }
        o["body"] = stmt(F->getBody());
        Functions.push_back(std::move(o));
    }

    json::Object functionHead(const FunctionDecl * F) {
        json::Object o;
        o["name"] = qname(F);
        o["simple"] = F->getNameAsString();
        o["sig"] = typeStr(F->getType());
        o["ret"] = typeStr(F->getReturnType());
        o["instantiation"] = F->isTemplateInstantiation();
        if (const auto * FPT = F->getType()->getAs<FunctionProtoType>()) o["nothrow"] = FPT->isNothrow();
        json::Array ps;
        for (const ParmVarDecl * P : F->parameters()) {
            json::Object p;
            p["name"] = P->getNameAsString();
            p["t"] = typeStr(P->getType());
            p["id"] = idOf(P);
            ps.push_back(std::move(p));
        }
        o["params"] = std::move(ps);
        if (const auto * M = dyn_cast<CXXMethodDecl>(F)) {
            o["class"] = qname(M->getParent());
            o["class_base"] = recBase(M->getParent());
            o["virtual"] = M->isVirtual();
            o["const"] = M->isConst();
            o["static"] = M->isStatic();
            o["access"] = (int)M->getAccess();
            json::Array ov;
            for (const CXXMethodDecl * O : M->overridden_methods()) ov.push_back(qname(O));
            o["overrides"] = std::move(ov);
            if (isa<CXXConstructorDecl>(M)) o["kind"] = "ctor";
            else if (isa<CXXDestructorDecl>(M)) o["kind"] = "dtor";
            else o["kind"] = "method";
        } else {
            o["kind"] = "function";
        }
        return o;
    }

    // ------------------------------------------------------------------ statements
    json::Value stmtOrNull(const Stmt * S) {
        if (!S) return nullptr;
        return stmt(S);
    }
    json::Value exprOrNull(const Expr * E) {
        if (!E) return nullptr;
        return expr(E);
    }

    json::Value stmt(const Stmt * S) {
        if (!S) return nullptr;
        if (const auto * E = dyn_cast<Expr>(S)) return expr(E);
        json::Object o;
        o["l"] = lineOf(S->getBeginLoc());
        if (const auto * C = dyn_cast<CompoundStmt>(S)) {
            o["k"] = "Compound";
            json::Array b;
            for (const Stmt * c : C->body()) b.push_back(stmt(c));
            o["body"] = std::move(b);
            o["endl"] = lineOf(C->getRBracLoc());
        } else if (const auto * I = dyn_cast<IfStmt>(S)) {
            o["k"] = "If";
            if (I->getInit()) o["init"] = stmt(I->getInit());
            o["cond"] = exprOrNull(I->getCond());
            o["then"] = stmtOrNull(I->getThen());
            o["else"] = stmtOrNull(I->getElse());
        } else if (const auto * W = dyn_cast<WhileStmt>(S)) {
            o["k"] = "While";
            o["cond"] = exprOrNull(W->getCond());
            o["body"] = stmtOrNull(W->getBody());
        } else if (const auto * D = dyn_cast<DoStmt>(S)) {
            o["k"] = "Do";
            o["cond"] = exprOrNull(D->getCond());
            o["body"] = stmtOrNull(D->getBody());
        } else if (const auto * Fo = dyn_cast<ForStmt>(S)) {
            o["k"] = "For";
            o["init"] = stmtOrNull(Fo->getInit());
            o["cond"] = exprOrNull(Fo->getCond());
            o["inc"] = exprOrNull(Fo->getInc());
            o["body"] = stmtOrNull(Fo->getBody());
        } else if (const auto * RF = dyn_cast<CXXForRangeStmt>(S)) {
            o["k"] = "RangeFor";
            o["var"] = RF->getLoopVariable() ? RF->getLoopVariable()->getNameAsString() : "";
            o["range"] = exprOrNull(RF->getRangeInit());
            o["body"] = stmtOrNull(RF->getBody());
        } else if (const auto * Sw = dyn_cast<SwitchStmt>(S)) {
            o["k"] = "Switch";
            o["cond"] = exprOrNull(Sw->getCond());
            o["body"] = stmtOrNull(Sw->getBody());
            o["allEnumCasesCovered"] = Sw->isAllEnumCasesCovered();
        } else if (const auto * Ca = dyn_cast<CaseStmt>(S)) {
            o["k"] = "Case";
            o["value"] = exprOrNull(Ca->getLHS());
            o["sub"] = stmtOrNull(Ca->getSubStmt());
        } else if (const auto * De = dyn_cast<DefaultStmt>(S)) {
            o["k"] = "Default";
            o["sub"] = stmtOrNull(De->getSubStmt());
        } else if (isa<BreakStmt>(S)) {
            o["k"] = "Break";
        } else if (isa<ContinueStmt>(S)) {
            o["k"] = "Continue";
        } else if (const auto * R = dyn_cast<ReturnStmt>(S)) {
            o["k"] = "Return";
            o["value"] = exprOrNull(R->getRetValue());
        } else if (const auto * T = dyn_cast<CXXTryStmt>(S)) {
            o["k"] = "Try";
            o["body"] = stmtOrNull(T->getTryBlock());
            json::Array hs;
            for (unsigned i = 0; i < T->getNumHandlers(); i++) {
                const CXXCatchStmt * H = T->getHandler(i);
                json::Object h;
                h["l"] = lineOf(H->getBeginLoc());
                h["type"] = H->getExceptionDecl() ? typeStr(H->getCaughtType()) : "...";
                h["body"] = stmtOrNull(H->getHandlerBlock());
                hs.push_back(std::move(h));
            }
            o["handlers"] = std::move(hs);
        } else if (const auto * DS = dyn_cast<DeclStmt>(S)) {
            o["k"] = "Decl";
            json::Array vs;
            for (const Decl * d : DS->decls()) {
                if (const auto * V = dyn_cast<VarDecl>(d)) {
                    json::Object v = typeInfo(V->getType());
                    v["name"] = V->getNameAsString();
                    v["id"] = idOf(V);
                    v["static"] = V->isStaticLocal();
                    v["constType"] = V->getType().isConstQualified();
                    v["init"] = exprOrNull(V->getInit());
                    vs.push_back(std::move(v));
                }
            }
            o["vars"] = std::move(vs);
        } else if (isa<GotoStmt>(S) || isa<IndirectGotoStmt>(S)) {
            o["k"] = "Goto";
        } else if (const auto * LS = dyn_cast<LabelStmt>(S)) {
            o["k"] = "Label";
            o["sub"] = stmtOrNull(LS->getSubStmt());
        } else if (isa<NullStmt>(S)) {
            o["k"] = "Null";
        } else if (const auto * AS = dyn_cast<AttributedStmt>(S)) {
            return stmt(AS->getSubStmt());
        } else {
            o["k"] = "OtherStmt";
            o["cls"] = S->getStmtClassName();
            json::Array ch;
            for (const Stmt * c : S->children()) ch.push_back(stmtOrNull(c));
            o["children"] = std::move(ch);
        }
        return std::move(o);
    }

    // ------------------------------------------------------------------ expressions
    void calleeInfo(json::Object & o, const FunctionDecl * FD) {
        if (!FD) return;
        o["callee"] = qname(FD);
        o["fn"] = FD->getNameAsString();
        o["csig"] = typeStr(FD->getType());
        o["calleeInRoot"] = inRoot(FD->getLocation());
        if (const auto * FPT = FD->getType()->getAs<FunctionProtoType>()) o["nothrow"] = FPT->isNothrow();
        if (const auto * M = dyn_cast<CXXMethodDecl>(FD)) {
            o["cls"] = recBase(M->getParent());
            o["clsq"] = qname(M->getParent());
            o["cvirtual"] = M->isVirtual();
            o["cstatic"] = M->isStatic();
            o["cconst"] = M->isConst();
        }
    }

    json::Value expr(const Expr * E) {
        if (!E) return nullptr;
        // transparent wrappers
        if (const auto * P = dyn_cast<ParenExpr>(E)) return expr(P->getSubExpr());
        if (const auto * C = dyn_cast<ExprWithCleanups>(E)) return expr(C->getSubExpr());
        if (const auto * M = dyn_cast<MaterializeTemporaryExpr>(E)) return expr(M->getSubExpr());
        if (const auto * B = dyn_cast<CXXBindTemporaryExpr>(E)) return expr(B->getSubExpr());
        if (const auto * CE = dyn_cast<ConstantExpr>(E)) return expr(CE->getSubExpr());
        if (const auto * IC = dyn_cast<ImplicitCastExpr>(E)) {
            CastKind k = IC->getCastKind();
            if (k == CK_LValueToRValue || k == CK_NoOp || k == CK_FunctionToPointerDecay ||
                k == CK_ArrayToPointerDecay || k == CK_ConstructorConversion || k == CK_UserDefinedConversion)
                return expr(IC->getSubExpr());
        }

        json::Object o;
        o["l"] = lineOf(E->getBeginLoc());
        o["t"] = typeStr(E->getType());
        if (!E->isValueDependent() && !E->isTypeDependent() && !E->getType().isNull() &&
            E->getType()->isIntegralOrEnumerationType() && !isa<InitListExpr>(E)) {
            Expr::EvalResult R;
            if (E->EvaluateAsInt(R, Ctx)) o["v"] = R.Val.getInt().getExtValue();
        }

        if (const auto * IL = dyn_cast<IntegerLiteral>(E)) {
            o["k"] = "Lit";
            o["lit"] = "int";
            (void)IL;
        } else if (const auto * BL = dyn_cast<CXXBoolLiteralExpr>(E)) {
            o["k"] = "Lit";
            o["lit"] = "bool";
            o["v"] = (int64_t)BL->getValue();
        } else if (isa<CXXNullPtrLiteralExpr>(E) || isa<GNUNullExpr>(E)) {
            o["k"] = "Lit";
            o["lit"] = "null";
        } else if (const auto * SL = dyn_cast<StringLiteral>(E)) {
            o["k"] = "Lit";
            o["lit"] = "string";
            if (SL->getCharByteWidth() == 1) o["s"] = SL->getString().str();
        } else if (isa<FloatingLiteral>(E)) {
            o["k"] = "Lit";
            o["lit"] = "float";
        } else if (const auto * CL = dyn_cast<CharacterLiteral>(E)) {
            o["k"] = "Lit";
            o["lit"] = "char";
            o["v"] = (int64_t)CL->getValue();
        } else if (isa<CXXThisExpr>(E)) {
            o["k"] = "This";
            o["implicit"] = cast<CXXThisExpr>(E)->isImplicit();
        } else if (const auto * DR = dyn_cast<DeclRefExpr>(E)) {
            o["k"] = "Ref";
            const ValueDecl * D = DR->getDecl();
            o["name"] = D->getNameAsString();
            o["q"] = qname(D);
            o["id"] = idOf(D);
            if (isa<ParmVarDecl>(D)) o["dk"] = "parm";
            else if (const auto * V = dyn_cast<VarDecl>(D)) o["dk"] = V->isLocalVarDecl() ? "local" : "global";
            else if (isa<EnumConstantDecl>(D)) o["dk"] = "enumconst";
            else if (isa<CXXMethodDecl>(D)) o["dk"] = "method";
            else if (isa<FunctionDecl>(D)) o["dk"] = "function";
            else if (isa<FieldDecl>(D)) o["dk"] = "field";
            else o["dk"] = "other";
            o["capture"] = DR->refersToEnclosingVariableOrCapture();
        } else if (const auto * ME = dyn_cast<MemberExpr>(E)) {
            o["k"] = "Member";
            o["base"] = expr(ME->getBase());
            o["arrow"] = ME->isArrow();
            const ValueDecl * D = ME->getMemberDecl();
            o["name"] = D->getNameAsString();
            o["q"] = qname(D);
            if (isa<FieldDecl>(D)) o["dk"] = "field";
            else if (isa<CXXMethodDecl>(D)) o["dk"] = "method";
            else o["dk"] = "other";
            if (const auto * F = dyn_cast<FieldDecl>(D)) o["owner"] = qname(F->getParent());
        } else if (const auto * MC = dyn_cast<CXXMemberCallExpr>(E)) {
            o["k"] = "Call";
            o["ck"] = "member";
            const CXXMethodDecl * MD = MC->getMethodDecl();
            calleeInfo(o, MD);
            const Expr * obj = MC->getImplicitObjectArgument();
            o["obj"] = exprOrNull(obj);
            bool qualified = false;
            if (const auto * CME = dyn_cast<MemberExpr>(MC->getCallee()->IgnoreParens())) qualified = CME->hasQualifier();
            o["qualified"] = qualified;
            o["virt"] = MD && MD->isVirtual() && !qualified;
            if (obj) {
                QualType OT = obj->getType();
                if (OT->isPointerType()) OT = OT->getPointeeType();
                if (const CXXRecordDecl * R = OT->getAsCXXRecordDecl()) { o["objcls"] = qname(R); o["objcls_base"] = recBase(R); }
            }
            json::Array a;
            for (const Expr * arg : MC->arguments()) a.push_back(expr(arg));
            o["args"] = std::move(a);
        } else if (const auto * OC = dyn_cast<CXXOperatorCallExpr>(E)) {
            o["k"] = "Call";
            o["ck"] = "operator";
            o["op"] = getOperatorSpelling(OC->getOperator());
            calleeInfo(o, OC->getDirectCallee());
            json::Array a;
            for (const Expr * arg : OC->arguments()) a.push_back(expr(arg));
            o["args"] = std::move(a);
        } else if (const auto * CE = dyn_cast<CallExpr>(E)) {
            o["k"] = "Call";
            o["ck"] = "function";
            const FunctionDecl * FD = CE->getDirectCallee();
            calleeInfo(o, FD);
            if (!FD) o["calleeExpr"] = exprOrNull(CE->getCallee());
            json::Array a;
            for (const Expr * arg : CE->arguments()) a.push_back(expr(arg));
            o["args"] = std::move(a);
        } else if (const auto * CC = dyn_cast<CXXConstructExpr>(E)) {
            o["k"] = "Construct";
            o["temporary"] = isa<CXXTemporaryObjectExpr>(E);
            calleeInfo(o, CC->getConstructor());
            o["elidable"] = CC->isElidable();
            o["listInit"] = CC->isListInitialization();
            o["zeroing"] = CC->requiresZeroInitialization();
            if (CC->getConstructor()) {
                o["copyOrMove"] = CC->getConstructor()->isCopyOrMoveConstructor();
                o["defaultCtor"] = CC->getConstructor()->isDefaultConstructor();
                o["implicitCtor"] = CC->getConstructor()->isImplicit();
                o["trivialCtor"] = CC->getConstructor()->isTrivial();
            }
            json::Array a;
            for (const Expr * arg : CC->arguments()) a.push_back(expr(arg));
            o["args"] = std::move(a);
        } else if (const auto * BO = dyn_cast<BinaryOperator>(E)) {
            o["k"] = "Bin";
            o["op"] = BO->getOpcodeStr().str();
            o["lhs"] = expr(BO->getLHS());
            o["rhs"] = expr(BO->getRHS());
            if (const auto * CAO = dyn_cast<CompoundAssignOperator>(E)) o["compT"] = typeStr(CAO->getComputationResultType());
        } else if (const auto * UO = dyn_cast<UnaryOperator>(E)) {
            o["k"] = "Un";
            o["op"] = UnaryOperator::getOpcodeStr(UO->getOpcode()).str();
            o["postfix"] = UO->isPostfix();
            o["sub"] = expr(UO->getSubExpr());
        } else if (const auto * CO = dyn_cast<ConditionalOperator>(E)) {
            o["k"] = "Cond";
            o["cond"] = expr(CO->getCond());
            o["then"] = expr(CO->getTrueExpr());
            o["else"] = expr(CO->getFalseExpr());
        } else if (const auto * CA = dyn_cast<CastExpr>(E)) {
            o["k"] = "Cast";
            o["cast"] = CA->getCastKindName();
            if (isa<ImplicitCastExpr>(E)) o["style"] = "implicit";
            else if (isa<CXXStaticCastExpr>(E)) o["style"] = "static";
            else if (isa<CXXReinterpretCastExpr>(E)) o["style"] = "reinterpret";
            else if (isa<CXXConstCastExpr>(E)) o["style"] = "const";
            else if (isa<CXXDynamicCastExpr>(E)) o["style"] = "dynamic";
            else if (isa<CXXFunctionalCastExpr>(E)) o["style"] = "functional";
            else o["style"] = "c";
            o["sub"] = expr(CA->getSubExpr());
            o["from"] = typeStr(CA->getSubExpr()->getType());
        } else if (const auto * SO = dyn_cast<UnaryExprOrTypeTraitExpr>(E)) {
            o["k"] = "Sizeof";
            o["trait"] = (int)SO->getKind();
            if (SO->isArgumentType()) o["argType"] = typeStr(SO->getArgumentType());
            else { o["arg"] = expr(SO->getArgumentExpr()); o["argType"] = typeStr(SO->getArgumentExpr()->getType()); }
        } else if (const auto * NE = dyn_cast<CXXNewExpr>(E)) {
            o["k"] = "New";
            o["type"] = typeStr(NE->getAllocatedType());
            if (const CXXRecordDecl * R = NE->getAllocatedType()->getAsCXXRecordDecl()) o["rec"] = qname(R);
            o["array"] = NE->isArray();
            o["init"] = exprOrNull(NE->getInitializer());
        } else if (const auto * DE = dyn_cast<CXXDeleteExpr>(E)) {
            o["k"] = "Delete";
            o["array"] = DE->isArrayForm();
            o["sub"] = expr(DE->getArgument());
        } else if (const auto * LE = dyn_cast<LambdaExpr>(E)) {
            o["k"] = "Lambda";
            json::Array caps;
            for (const LambdaCapture & C : LE->captures()) {
                json::Object c;
                c["byRef"] = C.getCaptureKind() == LCK_ByRef;
                c["this"] = C.capturesThis();
                c["implicit"] = C.isImplicit();
                if (C.capturesVariable()) { c["name"] = C.getCapturedVar()->getNameAsString(); c["id"] = idOf(C.getCapturedVar()); }
                caps.push_back(std::move(c));
            }
            o["captures"] = std::move(caps);
            json::Array ps;
            if (LE->getCallOperator())
                for (const ParmVarDecl * P : LE->getCallOperator()->parameters()) {
                    json::Object p;
                    p["name"] = P->getNameAsString();
                    p["t"] = typeStr(P->getType());
                    p["id"] = idOf(P);
                    ps.push_back(std::move(p));
                }
            o["params"] = std::move(ps);
            o["body"] = stmtOrNull(LE->getBody());
        } else if (const auto * TE = dyn_cast<CXXThrowExpr>(E)) {
            o["k"] = "Throw";
            o["sub"] = exprOrNull(TE->getSubExpr());
            if (TE->getSubExpr()) o["thrown"] = typeStr(TE->getSubExpr()->getType());
        } else if (const auto * IL = dyn_cast<InitListExpr>(E)) {
            o["k"] = "InitList";
            json::Array a;
            for (const Expr * i : IL->inits()) a.push_back(expr(i));
            o["elems"] = std::move(a);
        } else if (const auto * AS = dyn_cast<ArraySubscriptExpr>(E)) {
            o["k"] = "Index";
            o["base"] = expr(AS->getBase());
            o["idx"] = expr(AS->getIdx());
        } else if (const auto * DA = dyn_cast<CXXDefaultArgExpr>(E)) {
            o["k"] = "DefaultArg";
            o["e"] = exprOrNull(DA->getExpr());
        } else if (const auto * DI = dyn_cast<CXXDefaultInitExpr>(E)) {
            o["k"] = "DefaultInit";
            o["field"] = DI->getField() ? DI->getField()->getNameAsString() : "";
        } else if (isa<CXXScalarValueInitExpr>(E) || isa<ImplicitValueInitExpr>(E)) {
            o["k"] = "ValueInit";
        } else if (const auto * SI = dyn_cast<CXXStdInitializerListExpr>(E)) {
            o["k"] = "StdInitList";
            o["sub"] = expr(SI->getSubExpr());
        } else {
            o["k"] = "OtherExpr";
            o["cls"] = E->getStmtClassName();
            json::Array ch;
            for (const Stmt * c : E->children()) ch.push_back(stmtOrNull(c));
            o["children"] = std::move(ch);
        }
        return std::move(o);
    }
};

class Visitor : public RecursiveASTVisitor<Visitor> {
  public:
    explicit Visitor(Exporter & e) : Ex(e) {}
    bool shouldVisitTemplateInstantiations() const { return true; }
    bool shouldVisitImplicitCode() const { return false; }
    bool VisitCXXRecordDecl(CXXRecordDecl * R) { Ex.exportRecord(R); return true; }
    bool VisitEnumDecl(EnumDecl * E) { Ex.exportEnum(E); return true; }
    bool VisitFunctionDecl(FunctionDecl * F) { Ex.exportFunction(F); return true; }
    Exporter & Ex;
};

class Consumer : public ASTConsumer {
  public:
    void HandleTranslationUnit(ASTContext & Ctx) override {
        if (Ctx.getDiagnostics().hasErrorOccurred()) {
            llvm::errs() << "blfscan: translation unit has errors\n";
            Failed = true;
        }
        Exporter Ex(Ctx);
        Visitor V(Ex);
        V.TraverseDecl(Ctx.getTranslationUnitDecl());
        json::Object top;
        top["main"] = Ctx.getSourceManager().getFileEntryForID(Ctx.getSourceManager().getMainFileID())->getName().str();
        top["errors"] = Failed;
        top["records"] = std::move(Ex.Records);
        top["enums"] = std::move(Ex.Enums);
        top["functions"] = std::move(Ex.Functions);
        std::error_code EC;
        if (Out == "-") {
            llvm::outs() << json::Value(std::move(top)) << "\n";
        } else {
            llvm::raw_fd_ostream os(Out, EC);
            if (EC) { llvm::errs() << "blfscan: cannot write " << Out << "\n"; Failed = true; return; }
            os << json::Value(std::move(top)) << "\n";
        }
    }
    static bool Failed;
};
bool Consumer::Failed = false;

class Action : public ASTFrontendAction {
  public:
    std::unique_ptr<ASTConsumer> CreateASTConsumer(CompilerInstance &, StringRef) override {
        return std::make_unique<Consumer>();
    }
};

}  // namespace

int main(int argc, const char ** argv) {
    auto Parser = tooling::CommonOptionsParser::create(argc, argv, Cat);
    if (!Parser) {
        llvm::errs() << llvm::toString(Parser.takeError()) << "\n";
        return 2;
    }
    tooling::ClangTool Tool(Parser->getCompilations(), Parser->getSourcePathList());
    int rc = Tool.run(tooling::newFrontendActionFactory<Action>().get());
    if (rc != 0 || Consumer::Failed) return 2;
    return 0;
}
