#!/usr/bin/env python3
"""(Re)generates /verif/mutants/*.patch, /verif/benign/*.patch and /verif/mutants/index.json from the
specs below.  Authoring-time tool: the thorough tier only *applies* the recorded patches.

Each mutant is a realistic edit that still compiles; `expect` lists substrings of the obligation keys
that must be among the newly failed obligations of the listed properties."""
import difflib
import json
import os
import shutil

B = 'src/Vector/BLF/'
M = []   # mutants
G = []   # benign


def mut(name, file, pairs, props, expect, note='', all_occurrences=False):
    M.append(dict(name=name, file=B + file, pairs=pairs, properties=props, expect=expect, note=note, all_occurrences=all_occurrences))


def ben(name, file, pairs, props, note=''):
    G.append(dict(name=name, file=B + file, pairs=pairs, properties=props, note=note))


W = lambda m: "    os.write(reinterpret_cast<char *>(&%s), sizeof(%s));\n" % (m, m)
R = lambda m: "    is.read(reinterpret_cast<char *>(&%s), sizeof(%s));\n" % (m, m)

# ------------------------------------------------------------------ layout
mut('swap-write-order', 'AppText.cpp', [[W('source') + W('reservedAppText1'), W('reservedAppText1') + W('source')]],
    ['C01', 'C03'], ['L1|AppText|swap'], 'two same-width fields emitted in the other order than they are read')
mut('drop-size-term', 'CanMessage2.cpp', [["        sizeof(bitCount) +\n        sizeof(reservedCanMessage1) +\n        sizeof(reservedCanMessage2);", "        sizeof(reservedCanMessage1) +\n        sizeof(reservedCanMessage2);"]],
    ['C03'], ['L3|CanMessage2'], 'size function forgets a field')
mut('drop-preprocessing', 'AppText.cpp', [["    /* pre processing */\n    textLength = static_cast<uint32_t>(text.size());\n\n", ""]],
    ['C01', 'C03'], ['L6|AppText::write|payload:text', 'B2|AppText::write|text'], 'length field no longer derived from the container')
mut('drop-write-pad', 'EventComment.cpp', [["    /* skip padding */\n    os.skipp(objectSize % 4);\n", ""]],
    ['C01', 'C03'], ['L5|EventComment', 'L1|EventComment'], 'writer forgets the alignment padding the reader skips')
mut('drop-read-pad', 'EthernetFrame.cpp', [["    /* skip padding */\n    is.seekg(objectSize % 4, std::ios_base::cur);\n", ""]],
    ['C01', 'C03'], ['L1|EthernetFrame'], 'reader forgets the alignment padding the writer emits')
mut('tail-off-by-one', 'LinMessage2.cpp', [["    if (apiMajor < 3)\n        return;\n    os.write", "    if (apiMajor <= 3)\n        return;\n    os.write"]],
    ['C01', 'C03'], ['L3|LinMessage2', 'L1|LinMessage2'], 'version guard of the writer differs from the size function')
mut('wrong-resize-var', 'EnvironmentVariable.cpp', [["    data.resize(dataLength);", "    data.resize(nameLength);"]],
    ['C10', 'C01'], ['B1|EnvironmentVariable::read|data', 'L1|EnvironmentVariable'], 'buffer sized by one length, filled by another: heap overflow')
mut('sizeof-neighbour', 'CanMessage.cpp', [[R('dlc'), "    is.read(reinterpret_cast<char *>(&dlc), sizeof(id));\n"]],
    ['C10'], ['B1|CanMessage::read|dlc'], '4 bytes read into a 1-byte member')
mut('write-from-local', 'CanMessage.cpp', [[W('dlc'), "    uint8_t tmp = dlc;\n    os.write(reinterpret_cast<char *>(&tmp), sizeof(tmp));\n"]],
    ['C14'], ['B6|CanMessage::write'], 'bytes emitted from a local instead of object state')
mut('drop-initialiser', 'CanMessage.h', [["    uint8_t dlc {};", "    uint8_t dlc;"]],
    ['C14', 'C17'], ['D4|CanMessage|dlc'], 'member without initialiser')
mut('factory-neighbour-class', 'File.cpp', [["    case ObjectType::CAN_ERROR:\n        obj = new CanErrorFrame();", "    case ObjectType::CAN_ERROR:\n        obj = new CanErrorFrameExt();"]],
    ['C17', 'C01'], ['D1|code|CAN_ERROR', 'D1|class|CanErrorFrame'], 'factory news the neighbouring class')
mut('ctor-wrong-enumerator', 'LinCrcError2.cpp', [["    ObjectHeader(ObjectType::LIN_CRC_ERROR2) {", "    ObjectHeader(ObjectType::LIN_CRC_ERROR) {"]],
    ['C17', 'C01'], ['D1|class|LinCrcError2', 'D1|code|LIN_CRC_ERROR2'], 'constructor carries the code of the older sibling type')
mut('skip-reserved-on-read', 'AppText.cpp', [[R('reservedAppText2'), "    is.seekg(sizeof(reservedAppText2), std::ios_base::cur);\n"]],
    ['C02', 'C01'], ['L7|AppText', 'padfield'], 'reserved field skipped instead of stored: decode/encode is no longer the identity')
mut('reserved-written-as-zero', 'AppText.cpp', [["    textLength = static_cast<uint32_t>(text.size());\n", "    textLength = static_cast<uint32_t>(text.size());\n    reservedAppText1 = 0;\n"]],
    ['C02'], ['L2r|AppText|value:reservedAppText1'], 'reserved field overwritten with a constant before encoding')
mut('skipp-reserve', 'AbstractFile.cpp', [["    zero.resize(s);", "    zero.reserve(s);"]],
    ['C14'], ['Z1|skipp'], 'padding bytes come from unconstructed storage')

# ------------------------------------------------------------------ pipeline
mut('drop-notify-setfilesize', 'UncompressedFile.cpp', [["    /* set eof at m_dataEnd */\n    m_fileSize = fileSize;\n\n    /* notify */\n    tellpChanged.notify_all();", "    /* set eof at m_dataEnd */\n    m_fileSize = fileSize;"]],
    ['C06'], ['K3|UncompressedFile::setFileSize|tellpChanged'], 'end of stream declared without waking the reader: lost wake-up')
mut('drop-abort-atom', 'ObjectQueue.cpp', [["        return\n        m_abort ||\n        !m_queue.empty() ||", "        return\n        !m_queue.empty() ||"]],
    ['C06', 'C16'], ['K2|ObjectQueue<ObjectHeaderBase>::read'], 'abort() can no longer release the reader')
mut('close-drop-queue-abort', 'File.cpp', [["        /* abort readWriteQueue */\n        m_readWriteQueue.abort();\n", ""]],
    ['C06'], ['K6|read|File::uncompressedFileReadThread|space-wait:m_readWriteQueue'], 'close() joins a worker blocked on the full queue')
mut('close-drop-eof', 'File.cpp', [["        m_readWriteQueue.setFileSize(m_readWriteQueue.tellp()); // set eof\n", ""]],
    ['C06'], ['K6|write|File::uncompressedFileWriteThread|data-wait:m_readWriteQueue'], 'close() joins the encoder without declaring end of stream')
mut('close-join-before-abort', 'File.cpp', [["        /* finalize uncompressedFileThread */\n        m_uncompressedFileThreadRunning = false;\n        m_uncompressedFile.abort();\n\n        /* abort readWriteQueue */\n        m_readWriteQueue.abort();\n\n        /* finalize compressedFileThread */\n        if (m_compressedFileThread.joinable())\n            m_compressedFileThread.join();\n",
                                            "        /* finalize compressedFileThread */\n        if (m_compressedFileThread.joinable())\n            m_compressedFileThread.join();\n\n        /* finalize uncompressedFileThread */\n        m_uncompressedFileThreadRunning = false;\n        m_uncompressedFile.abort();\n\n        /* abort readWriteQueue */\n        m_readWriteQueue.abort();\n"]],
    ['C06'], ['K6|read|File::compressedFileReadThread|space-wait:m_uncompressedFile'], 'join moved in front of the aborts')
mut('eos-inside-try', 'File.cpp', [["                file->m_uncompressedFileThreadRunning = false;\n        }\n    } catch (...) {\n        file->m_uncompressedFileThreadException = std::current_exception();\n    }\n\n    /* set end of file (on every way out, otherwise the consumer waits forever) */\n    file->m_readWriteQueue.setFileSize(file->m_readWriteQueue.tellp());\n}",
                                   "                file->m_uncompressedFileThreadRunning = false;\n        }\n\n        /* set end of file */\n        file->m_readWriteQueue.setFileSize(file->m_readWriteQueue.tellp());\n    } catch (...) {\n        file->m_uncompressedFileThreadException = std::current_exception();\n    }\n}"]],
    ['C10'], ['K5|File::uncompressedFileReadThread|m_readWriteQueue|handler:catch(...)'], 'worker leaves through catch(...) without declaring end of stream')
mut('container-write-no-wait', 'UncompressedFile.cpp', [["    /* wait for free space */\n    tellgChanged.wait(lock, [&] {\n        return\n        m_abort ||\n        ((m_tellp - m_tellg) < m_bufferSize) ||\n        (m_tellp < m_requestedEnd);\n    });\n\n    /* close a partly filled", "    /* close a partly filled"]],
    ['C12'], ['P2|UncompressedFile::write|void (const std::shared_ptr'], 'no back-pressure when appending inflated containers')
mut('drop-dropolddata', 'File.cpp', [["    if (obj->objectType != ObjectType::Unknown115)\n        currentObjectCount++;\n\n    /* push data into readWriteQueue */\n    m_readWriteQueue.write(obj);\n\n    /* drop old data */\n    m_uncompressedFile.dropOldData();\n", "    if (obj->objectType != ObjectType::Unknown115)\n        currentObjectCount++;\n\n    /* push data into readWriteQueue */\n    m_readWriteQueue.write(obj);\n"]],
    ['C12'], ['P3|File::uncompressedFile2ReadWriteQueue'], 'consumed containers are never released')
mut('ctor-drop-capacity', 'File.cpp', [["    m_readWriteQueue.setBufferSize(10);\n", ""]],
    ['C12'], ['P1|m_readWriteQueue'], 'queue capacity left at numeric_limits::max()')
mut('gcount-without-lock', 'UncompressedFile.cpp', [["std::streamsize UncompressedFile::gcount() const {\n    /* mutex lock */\n    std::lock_guard<std::mutex> lock(m_mutex);\n\n", "std::streamsize UncompressedFile::gcount() const {\n"]],
    ['C11', 'C07'], ['K1|UncompressedFile::gcount|m_gcount'], 'accessor reads shared state without the mutex')
mut('use-after-handover', 'File.cpp', [["    /* statistics (before the hand-over: the application may delete obj as soon as it is queued) */\n    if (obj->objectType != ObjectType::Unknown115)\n        currentObjectCount++;\n\n    /* push data into readWriteQueue */\n    m_readWriteQueue.write(obj);\n",
                                        "    /* push data into readWriteQueue */\n    m_readWriteQueue.write(obj);\n\n    /* statistics */\n    if (obj->objectType != ObjectType::Unknown115)\n        currentObjectCount++;\n"]],
    ['C11'], ['O1|File::uncompressedFile2ReadWriteQueue|obj'], 'object touched after it was queued for the application')
mut('atomic-to-plain', 'File.h', [["    std::atomic<bool> m_compressedFileThreadRunning {};", "    bool m_compressedFileThreadRunning {};"]],
    ['C11'], ['K9|m_compressedFileThreadRunning'], 'loop flag shared between close() and the worker is no longer atomic')
mut('drop-delete-after-encode', 'File.cpp', [["    /* delete object */\n    delete ohb;\n", ""]],
    ['C13'], ['O2|File::readWriteQueue2UncompressedFile|ohb'], 'written objects leak')
mut('drop-delete-before-throw', 'File.cpp', [["    if (!m_uncompressedFile.good()) {\n        delete obj;\n        throw", "    if (!m_uncompressedFile.good()) {\n        throw"]],
    ['C13'], ['O2|File::uncompressedFile2ReadWriteQueue|obj'], 'object leaks when the stream ends inside it')
mut('close-skip-join', 'File.cpp', [["        /* finalize compressedFileThread */\n        if (m_compressedFileThread.joinable())\n            m_compressedFileThread.join();\n        if (m_compressedFileThreadException) {", "        /* finalize compressedFileThread */\n        if (m_compressedFileThreadException) {"]],
    ['C13'], ['O3|join|File::compressedFileWriteThread'], 'write-mode close() no longer joins the compression thread')
mut('queue-dtor-leak', 'ObjectQueue.cpp', [["        delete m_queue.front();\n        m_queue.pop();", "        m_queue.pop();"]],
    ['C13'], ['O4|dtor'], 'objects still queued at destruction leak')
mut('eof-on-abort', 'ObjectQueue.cpp', [["    if (m_queue.empty())\n        m_rdstate", "    if (m_queue.empty() || m_abort)\n        m_rdstate"]],
    ['C16', 'C07'], ['Q2|read'], 'end-of-stream reported while objects remain in the queue')
mut('queue-lifo', 'ObjectQueue.cpp', [["        ohb = m_queue.front();", "        ohb = m_queue.back();"]],
    ['C16'], ['Q1|ops|read', 'Q2|read'], 'consumer takes the newest element')
mut('count-unknown115', 'File.cpp', [["    /* statistics */\n    if (ohb->objectType != ObjectType::Unknown115)\n        currentObjectCount++;\n\n    /* delete object */", "    /* statistics */\n    currentObjectCount++;\n\n    /* delete object */"]],
    ['C05'], ['H1|File::readWriteQueue2UncompressedFile|currentObjectCount'], 'restore-point objects are counted')
mut('filesize-after-seekp', 'File.cpp', [["        fileStatistics.fileSize = static_cast<uint64_t>(m_compressedFile.tellp());\n        fileStatistics.uncompressedFileSize = currentUncompressedFileSize;", "        fileStatistics.uncompressedFileSize = currentUncompressedFileSize;"],
                                         ["        m_compressedFile.seekp(0);\n        fileStatistics.write(m_compressedFile);", "        m_compressedFile.seekp(0);\n        fileStatistics.fileSize = static_cast<uint64_t>(m_compressedFile.tellp());\n        fileStatistics.write(m_compressedFile);"]],
    ['C05'], ['H2|close|write'], 'file size taken after rewinding: header says 0')
mut('level0-stored-as-zlib', 'File.cpp', [["        logContainer.compress(0, 0);", "        logContainer.compress(2, 0);"]],
    ['C04'], ['F3|method-level|file'], 'level 0 stored with method 2')
mut('container-header-swap', 'LogContainer.cpp', [[W('compressionMethod') + W('reservedLogContainer1'), W('reservedLogContainer1') + W('compressionMethod')]],
    ['C04'], ['F1|LogContainer|layout'], 'two 16-bit header fields emitted in the wrong order')
mut('cut-size-from-request', 'File.cpp', [["    logContainer.uncompressedFileSize = static_cast<uint32_t>(m_uncompressedFile.gcount());", "    logContainer.uncompressedFileSize = m_uncompressedFile.defaultLogContainerSize();"]],
    ['C04'], ['F4|cut-size'], 'last container declares the requested size instead of what was read')
mut('foreign-writer', 'File.cpp', [["    /* push to queue */\n    m_readWriteQueue.write(ohb);", "    /* push to queue */\n    m_readWriteQueue.write(ohb);\n    if (ohb->objectType == ObjectType::Unknown115)\n        m_compressedFile.skipp(4);"]],
    ['C04'], ['F5|compressed-file|writers'], 'application thread writes into the compressed file while the compression thread does')
mut('drop-zlib-retval-check', 'LogContainer.cpp', [["        if (retVal != Z_OK)\n            throw Exception(\"LogContainer::uncompress(): uncompress error\");\n", "        (void) retVal;\n"]],
    ['C08'], ['E2|uncompress|checks'], 'corrupt deflate stream accepted')
mut('drop-good-after-container', 'File.cpp', [["    logContainer->read(m_compressedFile);\n    if (!m_compressedFile.good())\n        throw Exception(\"File::compressedFile2UncompressedFile(): Read beyond end of file.\");\n", "    logContainer->read(m_compressedFile);\n"]],
    ['C08'], ['E1|File::compressedFile2UncompressedFile|container'], 'truncated container committed')
mut('resync-table-typo', 'ObjectHeaderBase.cpp', [["(0xffff0000 & tmp) == 0x4f4c0000", "(0xffff0000 & tmp) == 0x4c4f0000"]],
    ['C09'], ['S1|partial|2'], 'two-byte prefix compared against the bytes in the wrong order')
mut('unknown-skip-short', 'File.cpp', [["        m_uncompressedFile.seekg(ohb.objectSize, std::ios_base::cur);", "        m_uncompressedFile.seekg(ohb.objectSize - ohb.calculateHeaderSize(), std::ios_base::cur);"]],
    ['C09'], ['S2|unknown-skip'], 'skip computed as if the header had not been rewound')
mut('drop-size-guard', 'File.cpp', [["    if (ohb.objectSize < ohb.calculateHeaderSize()) {\n        /* an object cannot be smaller than its header; skipping by such a size would never advance */\n        throw Exception(\"File::uncompressedFile2ReadWriteQueue(): Object size is smaller than the object header.\");\n    }\n", ""]],
    ['C10'], ['T1|decode-loop|progress'], 'objectSize 0 never advances')
mut('method0-size-invariant', 'LogContainer.cpp', [["        /* the stored payload is the data: do not trust the declared size */\n        uncompressedFileSize = static_cast<uint32_t>(uncompressedFile.size());\n", ""]],
    ['C10'], ['B3|uncompress|size-invariant'], 'declared size trusted for uncompressed containers')
mut('eos-before-loop', 'File.cpp', [["void File::uncompressedFileWriteThread(File * file) {\n    try {\n", "void File::uncompressedFileWriteThread(File * file) {\n    /* set end of file */\n    file->m_uncompressedFile.setFileSize(file->m_uncompressedFile.tellp());\n    try {\n"]],
    ['C07'], ['K8|File::uncompressedFileWriteThread|m_uncompressedFile'], 'end of stream declared before the last transfer')
mut('null-check-dropped', 'File.cpp', [["    if (obj == nullptr) {\n        /* in case of unknown objectType */\n        m_uncompressedFile.seekg(ohb.objectSize, std::ios_base::cur);\n\n        /* drop old data */\n        m_uncompressedFile.dropOldData();\n        return;\n    }\n", ""]],
    ['C10', 'C09'], ['DN|createObject|null-check', 'S2|unknown-skip'], 'unknown object types are dereferenced')

mut('copy-without-min', 'UncompressedFile.cpp', [["        std::streamsize gcount = std::min(n, static_cast<std::streamsize>(logContainer->uncompressedFileSize - offset));", "        std::streamsize gcount = n;"]],
    ['C10', 'C15'], ['B7|UncompressedFile::read'], 'a read spanning two containers copies past the first container buffer')
mut('finder-off-by-one', 'UncompressedFile.cpp', [["            (pos < logContainer->uncompressedFileSize + logContainer->filePosition);", "            (pos <= logContainer->uncompressedFileSize + logContainer->filePosition);"]],
    ['C10', 'C15'], ['B7|logContainerContaining|postcondition'], 'a position exactly at the end of a container selects that container: offset == size')
mut('drop-unread-container', 'UncompressedFile.cpp', [["        if ((position > m_tellg) || (position > m_tellp) || (position > m_fileSize)) {", "        if ((position > m_tellp) || (position > m_fileSize)) {"]],
    ['C12', 'C01', 'C15'], ['P4|dropOldData'], 'the front container is released although the reader has not passed it')
mut('nextcontainer-size-mismatch', 'UncompressedFile.cpp', [["            logContainer->uncompressedFile.resize(offset);\n            logContainer->uncompressedFileSize = offset;", "            logContainer->uncompressedFile.resize(offset);"]],
    ['C10', 'C15'], ['B3|UncompressedFile::nextLogContainer'], 'buffer shrunk, size field not: later reads index past the buffer')

mut('state-reset-on-read', 'UncompressedFile.cpp', [["        m_rdstate = std::ios_base::eofbit | std::ios_base::failbit;\n    }\n", "        m_rdstate = std::ios_base::eofbit | std::ios_base::failbit;\n    } else\n        m_rdstate = std::ios_base::goodbit;\n"]],
    ['C08', 'C15'], ['E4|UncompressedFile::read'], 'a later zero-length read erases the failure of an earlier short read')
mut('container-position-default', 'UncompressedFile.cpp', [["            } else {\n                /* everything before the put position has been consumed and dropped */\n                logContainer->filePosition = m_tellp;\n            }\n", "            }\n"]],
    ['C12', 'C15'], ['P5|UncompressedFile::write'], 'new container chained from position 0 after the list was emptied')
mut('producer-drops-old-data', 'File.cpp', [["    /* copy into uncompressedFile */\n    m_uncompressedFile.write(logContainer);\n", "    /* copy into uncompressedFile */\n    m_uncompressedFile.write(logContainer);\n\n    /* drop old data */\n    m_uncompressedFile.dropOldData();\n"]],
    ['C07'], ['K7|m_uncompressedFile|read'], 'the inflating thread releases containers the decoding thread is about to seek back into')
mut('timed-queue-wait', 'ObjectQueue.cpp', [["    /* wait for data */\n    tellpChanged.wait(lock, [&] {", "    /* wait for data */\n    tellpChanged.wait_for(lock, std::chrono::milliseconds(500), [&] {"]],
    ['C07', 'C16', 'C06'], ['K2|ObjectQueue<ObjectHeaderBase>::read'], 'timeout treated as end of stream')
mut('static-zero-buffer', 'AbstractFile.cpp', [["    std::vector<char> zero;\n    zero.resize(s);", "    static std::vector<char> zero;\n    if (zero.size() < static_cast<std::size_t>(s))\n        zero.resize(static_cast<std::size_t>(s));"]],
    ['C14', 'C11'], ['G1|static-locals', 'Z1|skipp'], 'padding source shared by all threads without synchronisation')
mut('factory-narrowed-switch', 'File.cpp', [["    switch (type) {\n    case ObjectType::UNKNOWN:", "    switch (static_cast<ObjectType>(static_cast<uint16_t>(type))) {\n    case ObjectType::UNKNOWN:"]],
    ['C17'], ['D3|switch|operand'], '32-bit codes alias assigned 16-bit codes')

mut('skip-without-drop', 'File.cpp', [["        m_uncompressedFile.seekg(ohb.objectSize, std::ios_base::cur);\n\n        /* drop old data */\n        m_uncompressedFile.dropOldData();\n        return;", "        m_uncompressedFile.seekg(ohb.objectSize, std::ios_base::cur);\n        return;"]],
    ['C12'], ['P3|File::uncompressedFile2ReadWriteQueue'], 'a stretch of unknown objects keeps every inflated container in memory')

mut('mode-recorded-early', 'File.cpp', [["    /* check */\n    if (is_open())\n        return;\n\n    /* try to open file */", "    m_openMode = mode;\n\n    /* check */\n    if (is_open())\n        return;\n\n    /* try to open file */"],
                                          ["    if (!m_compressedFile.is_open())\n        return;\n    m_openMode = mode;\n", "    if (!m_compressedFile.is_open())\n        return;\n"]],
    ['C13'], ['O3|open|mode-recorded'], 'an ignored second open() changes the mode close() dispatches on')
mut('loop-exit-on-filesize', 'File.cpp', [["            file->uncompressedFile2CompressedFile();\n\n            /* check for eof */\n            if (!file->m_uncompressedFile.good())", "            file->uncompressedFile2CompressedFile();\n\n            /* check for eof */\n            if (!file->m_uncompressedFile.good() || (file->m_uncompressedFile.tellg() >= file->m_uncompressedFile.fileSize()))"]],
    ['C07'], ['K11|File::compressedFileWriteThread'], 'trailing empty container written or not depending on which worker runs first')
mut('resync-eof-last-branch', 'ObjectHeaderBase.cpp', [["\t\t\t\t\t/* any failure ends the search: a stream that was closed meanwhile fails without reaching its end */\n\t\t\t\t\tif (!is.good()) {\n\t\t\t\t\t\tthrow Exception(\"ObjectHeaderBase::read(): End of File.\");\n\t\t\t\t\t}\n\n", ""],
                                                        ["\t\t\t\t\t\t/* do not seek as we did not find a single char */\n", "\t\t\t\t\t\t/* do not seek as we did not find a single char */\n\t\t\t\t\t\tif (!is.good()) {\n\t\t\t\t\t\t\tthrow Exception(\"ObjectHeaderBase::read(): End of File.\");\n\t\t\t\t\t\t}\n"]],
    ['C10', 'C09'], ['S1|loop|eof-every-retry'], 'input ending in a partial signature makes the worker spin')

mut('resync-tests-eof-only', 'ObjectHeaderBase.cpp', [["\t\t\t\t\tif (!is.good()) {\n\t\t\t\t\t\tthrow Exception(\"ObjectHeaderBase::read(): End of File.\");", "\t\t\t\t\tif (is.eof()) {\n\t\t\t\t\t\tthrow Exception(\"ObjectHeaderBase::read(): End of File.\");"]],
    ['C06', 'C08', 'C10', 'C09'], ['S1|loop|eof-every-retry'], 'the defect fixed in 4842e88: a stream closed by close() fails without eof and the search spins')

mut('close-overwrites-caller-field', 'File.cpp', [["        fileStatistics.objectCount = currentObjectCount;", "        fileStatistics.objectCount = currentObjectCount;\n        fileStatistics.compressionLevel = static_cast<uint8_t>(compressionLevel);"]],
    ['C05'], ['H3|fileStatistics'], 'a header field supplied by the caller is replaced at close()')
mut('queue-capacity-off-by-one', 'ObjectQueue.cpp', [["        static_cast<uint32_t>(m_queue.size()) < m_bufferSize;", "        static_cast<uint32_t>(m_queue.size()) <= m_bufferSize;"]],
    ['C16'], ['Q3|write|capacity-exact'], 'the queue admits one object more than its capacity')

mut('count-before-early-return', 'File.cpp', [["    /* compress */\n    if (compressionLevel == 0) {", "    /* statistics */\n    currentUncompressedFileSize +=\n        logContainer.internalHeaderSize() +\n        logContainer.uncompressedFileSize;\n\n    /* nothing left: do not write an empty container while the thread is still running */\n    if ((logContainer.uncompressedFileSize == 0) && m_compressedFileThreadRunning)\n        return;\n\n    /* compress */\n    if (compressionLevel == 0) {"],
                                                 ["    /* statistics */\n    currentUncompressedFileSize +=\n        logContainer.internalHeaderSize() +\n        logContainer.uncompressedFileSize;\n\n    /* drop old data */", "    /* drop old data */"]],
    ['C05'], ['H1|File::uncompressedFile2CompressedFile'], 'a container that is never written has already been counted')
mut('factory-count-guard', 'File.cpp', [["    ObjectHeaderBase * obj = nullptr;\n\n    switch (type) {", "    ObjectHeaderBase * obj = nullptr;\n\n    if (static_cast<uint32_t>(type) >= static_cast<uint32_t>(ObjectType::ATTRIBUTE_EVENT))\n        return obj;\n\n    switch (type) {"]],
    ['C17'], ['D1|code|ATTRIBUTE_EVENT'], 'a range guard in front of the switch is off by one: the last code yields nothing')
mut('base-init-reads-member', 'LinMessage2.cpp', [["    ObjectHeader(ObjectType::LIN_MESSAGE2, 1) {", "    ObjectHeader(ObjectType::LIN_MESSAGE2, apiMajor) {"]],
    ['C17', 'C14'], ['D6|LinMessage2'], 'base constructor argument read from a member that is initialised later')
mut('type-through-reference', 'File.cpp', [["    /* statistics (before the hand-over: the application may delete obj as soon as it is queued) */\n    if (obj->objectType != ObjectType::Unknown115)\n        currentObjectCount++;\n\n    /* push data into readWriteQueue */\n    m_readWriteQueue.write(obj);\n",
                                           "    /* remember the type before the hand-over */\n    const ObjectType & objectType = obj->objectType;\n\n    /* push data into readWriteQueue */\n    m_readWriteQueue.write(obj);\n\n    /* statistics */\n    if (objectType != ObjectType::Unknown115)\n        currentObjectCount++;\n"]],
    ['C11'], ['O1|File::uncompressedFile2ReadWriteQueue|obj'], 'a reference into the object is read after the hand-over')
mut('drained-accessor', 'File.cpp', [["            file->uncompressedFile2CompressedFile();\n\n            /* check for eof */\n            if (!file->m_uncompressedFile.good())", "            file->uncompressedFile2CompressedFile();\n\n            /* check for eof */\n            if (!file->m_uncompressedFile.good() || (file->m_uncompressedFile.fileSize() == static_cast<std::streamsize>(file->m_uncompressedFile.tellg())))"]],
    ['C14'], ['K11|File::compressedFileWriteThread'], 'output depends on which worker reaches the end of data first')

mut('gcount-not-accumulated', 'UncompressedFile.cpp', [["        m_gcount += gcount;", "        m_gcount = gcount;"]],
    ['C15'], ['R1|UncompressedFile::read'], 'a read spanning two containers reports only the bytes of the last one')
mut('short-read-off-by-one', 'UncompressedFile.cpp', [["        n = m_fileSize - m_tellg;", "        n = m_fileSize - m_tellg - 1;"]],
    ['C15'], ['R2|read|short-at-end'], 'the last byte before the declared end is never delivered')

CUT = '    /* close a partly filled log container, so that the appended one continues at the put position */\n    std::shared_ptr<LogContainer> lastLogContainer = logContainerContaining(m_tellp);\n    if (lastLogContainer) {\n        std::streamoff offset = m_tellp - lastLogContainer->filePosition;\n        lastLogContainer->uncompressedFile.resize(offset);\n        lastLogContainer->uncompressedFileSize = offset;\n    }\n\n'
mut('append-without-closing-tail', 'UncompressedFile.cpp', [[CUT, ""]],
    ['C15'], ['R3|UncompressedFile::write/container'], 'a whole container appended onto a partly filled one: the older container keeps answering for the overlapping positions')
mut('append-closes-at-get-position', 'UncompressedFile.cpp', [["        std::streamoff offset = m_tellp - lastLogContainer->filePosition;\n        lastLogContainer->uncompressedFile.resize(offset);",
                                                                 "        std::streamoff offset = m_tellg - lastLogContainer->filePosition;\n        lastLogContainer->uncompressedFile.resize(offset);"]],
    ['C15'], ['R3|UncompressedFile::write/container'], 'the partly filled container is cut at the get position instead of the put position')
mut('append-at-get-position', 'UncompressedFile.cpp', [["    m_data.push_back(logContainer);\n    logContainer->filePosition = m_tellp;", "    m_data.push_back(logContainer);\n    logContainer->filePosition = m_tellg;"]],
    ['C15'], ['R3|UncompressedFile::write/container'], 'appended container starts at the get position')
mut('new-container-chains-from-front', 'UncompressedFile.cpp', [["                    m_data.back()->uncompressedFileSize +\n                    m_data.back()->filePosition;", "                    m_data.back()->uncompressedFileSize +\n                    m_data.front()->filePosition;"]],
    ['C15'], ['R3|UncompressedFile::write|'], 'a new container starts at front.filePosition + back.size: overlaps as soon as two containers are buffered')

mut('write-loop-to-if', 'UncompressedFile.cpp', [["    /* write data */\n    while (n > 0) {", "    /* write data */\n    if (n > 0) {"]],
    ['C15', 'C04'], ['R4|UncompressedFile::write|m_tellp'], 'a write that does not fit into the current container drops its remainder')
mut('counter-narrowed', 'File.h', [["    uint64_t currentUncompressedFileSize {};", "    uint32_t currentUncompressedFileSize {};"]],
    ['C05'], ['H4|width|uncompressedFileSize'], 'the running uncompressed size wraps at 4 GiB')
mut('open-resets-before-guard', 'File.cpp', [["    /* check */\n    if (is_open())\n        return;\n\n    /* try to open file */", "    currentUncompressedFileSize = 0;\n    currentObjectCount = 0;\n\n    /* check */\n    if (is_open())\n        return;\n\n    /* try to open file */"]],
    ['C05'], ['H2|open|statisticsSize'], 'a redundant open() on an open File wipes the running statistics')

PUB = "    m_requestedEnd = n + m_tellg;\n    tellgChanged.notify_all();\n"
ADM = "        ((m_tellp - m_tellg) < m_bufferSize) ||\n        (m_tellp < m_requestedEnd);\n"
mut('request-not-published', 'UncompressedFile.cpp', [[PUB, ""]],
    ['C06'], ['T2|m_uncompressedFile'], 'the reader waits without admitting the writer: a request beyond the buffer size blocks both')
mut('request-published-silently', 'UncompressedFile.cpp', [[PUB, "    m_requestedEnd = n + m_tellg;\n"]],
    ['C06'], ['T2|m_uncompressedFile', 'K3|'], 'a writer already waiting for free space is not woken when the request is published')
mut('request-published-short', 'UncompressedFile.cpp', [[PUB, "    m_requestedEnd = n;\n    tellgChanged.notify_all();\n"]],
    ['C06'], ['T2|m_uncompressedFile'], 'the published end is the request size, not the position: useless once the get position has advanced')
mut('writers-ignore-request', 'UncompressedFile.cpp', [[ADM, "        ((m_tellp - m_tellg) < m_bufferSize);\n"]],
    ['C06'], ['T2|m_uncompressedFile|read'], 'admission by fill level only: a payload larger than buffer + container deadlocks the read pipeline', all_occurrences=True)
mut('one-writer-ignores-request', 'UncompressedFile.cpp', [[ADM + "    });\n\n    /* close a partly filled", "        ((m_tellp - m_tellg) < m_bufferSize);\n    });\n\n    /* close a partly filled"]],
    ['C06'], ['K2s|'], 'the container overload is not admitted by a waiting reader: read mode deadlocks on large payloads')
mut('request-reset-by-seek', 'UncompressedFile.cpp', [["    m_tellg = std::min(static_cast<std::streamsize>(m_tellg + off), m_fileSize);\n", "    m_tellg = std::min(static_cast<std::streamsize>(m_tellg + off), m_fileSize);\n    m_requestedEnd = 0;\n"]],
    ['C06'], ['T2|m_uncompressedFile'], 'another function withdraws the admission a waiting reader relies on')

SER_IF = "    if (flags & Flags::SingleByte)\n        singleByte.write(os);\n    else {\n        if (flags & Flags::CompactByte)\n            compact.write(os);\n        else\n            general.write(os);\n    }\n"
mut('serialevent-write-switch-both-bits', 'SerialEvent.cpp', [[SER_IF, "    switch (flags & (Flags::SingleByte | Flags::CompactByte)) {\n    case Flags::SingleByte:\n        singleByte.write(os);\n        break;\n    case Flags::CompactByte:\n        compact.write(os);\n        break;\n    default:\n        general.write(os);\n        break;\n    }\n"]],
    ['C03', 'C01'], ['L3|SerialEvent', 'L1|SerialEvent'], 'with both variant bits set the writer emits the general variant, the size function and the reader the single-byte one')
mut('systemvariable-early-return-skips-pad', 'SystemVariable.cpp', [["    os.write(reinterpret_cast<char *>(data.data()), dataLength);\n\n    /* skip padding */", "    if (data.empty())\n        return;\n    os.write(reinterpret_cast<char *>(data.data()), dataLength);\n\n    /* skip padding */"]],
    ['C03', 'C01'], ['L5|SystemVariable'], 'the early return for an empty payload also skips the alignment padding')

mut('unsigned-buffer-size-no-handoff', 'UncompressedFile.cpp', [[ADM, "        ((m_tellp - m_tellg) < m_bufferSize);\n"]],
    ['C06', 'C10', 'C09', 'C07'], ['K2u|UncompressedFile::write'], 'fill-level protocol with an unsigned comparison: a skipped unknown object wraps the fill level and the producer is never admitted again', all_occurrences=True)
M[-1]['extra_edits'] = [('UncompressedFile.h', [["    std::streamsize m_bufferSize {std::numeric_limits<std::streamsize>::max()};", "    std::size_t m_bufferSize {std::numeric_limits<std::size_t>::max()};"]])]

mut('signed-selector', 'CanErrorFrame.h', [["    uint16_t length {};", "    int16_t length {};"]],
    ['C02'], ['L9|CanErrorFrame|length'], 'length >= 0x8000 now selects the layout without the trailing field')
mut('reader-stops-at-header-size', 'File.cpp', [["            /* check for eof */\n            if (!file->m_compressedFile.good())\n                file->m_compressedFileThreadRunning = false;\n        }\n    } catch (...) {\n        file->m_compressedFileThreadException = std::current_exception();\n    }\n\n    /* set end of file (on every way out, otherwise the consumer waits forever) */\n    file->m_uncompressedFile.setFileSize(file->m_uncompressedFile.tellp());",
                                                    "            /* check for eof */\n            if (!file->m_compressedFile.good() || (static_cast<uint64_t>(file->m_compressedFile.tellg()) >= file->fileStatistics.fileSize))\n                file->m_compressedFileThreadRunning = false;\n        }\n    } catch (...) {\n        file->m_compressedFileThreadException = std::current_exception();\n    }\n\n    /* set end of file (on every way out, otherwise the consumer waits forever) */\n    file->m_uncompressedFile.setFileSize(file->m_uncompressedFile.tellp());"]],
    ['C08'], ['E5|File::compressedFileReadThread'], 'with the initial all-zero header the inflating worker stops after the first container')
PAD_SEEK = "    /* skip padding */\n    is.seekg(objectSize % 4, std::ios_base::cur);\n}\n\nvoid LogContainer::write"
PAD_READ = "    /* skip padding */\n    std::vector<char> padding(objectSize % 4);\n    is.read(padding.data(), objectSize % 4);\n}\n\nvoid LogContainer::write"
mut('container-pad-by-read', 'LogContainer.cpp', [[PAD_SEEK, PAD_READ]],
    ['C08'], ['E6|LogContainer'], 'a file cut inside the padding behind a complete container loses that container')
mut('close-stops-compressor', 'File.cpp', [["        /* finalize compressedFileThread */\n        if (m_compressedFileThread.joinable())\n            m_compressedFileThread.join();\n        if (m_compressedFileThreadException) {", "        /* finalize compressedFileThread */\n        m_compressedFileThreadRunning = false;\n        if (m_compressedFileThread.joinable())\n            m_compressedFileThread.join();\n        if (m_compressedFileThreadException) {"]],
    ['C07', 'C01', 'C13', 'C04'], ['K12|File::compressedFileWriteThread'], 'a compression thread that is still busy when close() runs stops with data pending')
mut('drop-before-rewind', 'File.cpp', [["    m_uncompressedFile.seekg(-ohb.calculateHeaderSize(), std::ios_base::cur);\n\n    /* create object */", "    m_uncompressedFile.dropOldData();\n    m_uncompressedFile.seekg(-ohb.calculateHeaderSize(), std::ios_base::cur);\n\n    /* create object */"]],
    ['C06', 'C12', 'C01'], ['P6|File::uncompressedFile2ReadWriteQueue'], 'an object starting 16 bytes before a container boundary: the rewind points into released data, the decoder spins')
mut('skipp-override-moves-position', 'UncompressedFile.cpp', [["bool UncompressedFile::good() const {", "void UncompressedFile::skipp(std::streamsize s) {\n    std::lock_guard<std::mutex> lock(m_mutex);\n    m_tellp += s;\n    if (m_tellp >= m_fileSize)\n        m_fileSize = m_tellp;\n    tellpChanged.notify_all();\n}\n\nbool UncompressedFile::good() const {"]],
    ['C15', 'C01', 'C04'], ['R5|UncompressedFile::skipp'], 'padding that runs past the end of the last container leaves a hole once that container has been dropped')
M[-1]['extra_edits'] = [('AbstractFile.h', [["    virtual void skipp(std::streamsize s) final;", "    virtual void skipp(std::streamsize s);"]]),
                        ('UncompressedFile.h', [["    std::streampos tellp() override;\n", "    std::streampos tellp() override;\n    void skipp(std::streamsize s) override;\n"]])]

mut('eof-atom-guarded-by-sentinel', 'ObjectQueue.cpp', [["(m_tellg >= m_fileSize);", "((m_fileSize != 0) && (m_tellg >= m_fileSize));"]],
    ['C16', 'C06'], ['K2a|ObjectQueue'], 'a declared size of 0 (the empty stream) never ends the wait: close() of a session without objects hangs')
mut('gcount-reset-dropped', 'UncompressedFile.cpp', [["    m_gcount = 0;\n    while (n > 0) {", "    while (n > 0) {"]],
    ['C15'], ['R1|UncompressedFile::read'], 'gcount() accumulates over all reads')

NEWPOS = '    /* read object */\n    const std::streampos objectBegin = m_uncompressedFile.tellg();\n    obj->read(m_uncompressedFile);\n    if (!m_uncompressedFile.good()) {\n        delete obj;\n        throw Exception("File::uncompressedFile2ReadWriteQueue(): Read beyond end of file.");\n    }\n\n    /* an object that declares less than what was read: continue at its declared end */\n    const std::streamoff readTooMuch = m_uncompressedFile.tellg() - (objectBegin + static_cast<std::streamoff>(ohb.objectSize));\n    if (readTooMuch > 0) {\n        m_uncompressedFile.seekg(-readTooMuch, std::ios_base::cur);\n    }\n'
OLDPOS = '    int32_t tmp = 0;\n    if (obj->calculateObjectSize() > ohb.objectSize) {\n        // we are about to read too much data\n        tmp = ohb.objectSize - obj->calculateObjectSize();\n    }\n\n    /* read object */\n    obj->read(m_uncompressedFile);\n    if (!m_uncompressedFile.good()) {\n        delete obj;\n        throw Exception("File::uncompressedFile2ReadWriteQueue(): Read beyond end of file.");\n    }\n\n    if (tmp!=0) {\n        m_uncompressedFile.seekg(tmp);\n    }\n'
mut('reposition-by-fresh-size', 'File.cpp', [[NEWPOS, OLDPOS]],
    ['C10'], ['T1|decode-loop'], 'step back by objectSize - calculateObjectSize() of the fresh object: a LinMessage2 declaring 16..20 bytes is delivered forever')
mut('reposition-from-header-peek', 'File.cpp', [["    m_uncompressedFile.seekg(-ohb.calculateHeaderSize(), std::ios_base::cur);\n\n    /* create object */", "    const std::streampos objectBegin = m_uncompressedFile.tellg();\n    m_uncompressedFile.seekg(-ohb.calculateHeaderSize(), std::ios_base::cur);\n\n    /* create object */"],
                                                 ["    const std::streampos objectBegin = m_uncompressedFile.tellg();\n    obj->read(m_uncompressedFile);", "    obj->read(m_uncompressedFile);"]],
    ['C10'], ['T1|decode-loop'], 'the start mark is taken behind the peeked header: every short object is followed by 16 bytes too many')
mut('drop-single-container', 'UncompressedFile.cpp', [["    while (!m_data.empty()) {\n        std::shared_ptr<LogContainer> logContainer = m_data.front();", "    if (!m_data.empty()) {\n        std::shared_ptr<LogContainer> logContainer = m_data.front();"]],
    ['C12'], ['P7|dropOldData'], 'one container released per call: objects larger than a container leave the rest behind')
mut('worker-aborts-stream', 'File.cpp', [["            } catch (Vector::BLF::Exception &) {\n                file->m_uncompressedFileThreadRunning = false;\n            }", "            } catch (Vector::BLF::Exception &) {\n                file->m_uncompressedFileThreadRunning = false;\n                file->m_uncompressedFile.abort();\n            }"]],
    ['C12'], ['K13|abort'], 'after a damaged object the inflating thread is no longer held back and buffers the rest of the file')
mut('dtor-closes-only-if-good', 'File.cpp', [["File::~File() {\n    close();\n}", "File::~File() {\n    if (good())\n        close();\n}"]],
    ['C13'], ['O3|dtor'], 'a read session that reached the end is destroyed with joinable threads: std::terminate')
mut('container-size-static-const', 'File.cpp', [["    /* setup new log container */\n    LogContainer logContainer;", "    static const uint32_t firstSize = m_uncompressedFile.defaultLogContainerSize();\n    (void) firstSize;\n\n    /* setup new log container */\n    LogContainer logContainer;"]],
    ['C14', 'C11', 'C17'], ['G1|static-locals'], 'a const static initialised from run-time state by the first File of the process')
mut('cached-tail-pointer', 'UncompressedFile.h', [["    /** mutex */\n    mutable std::mutex m_mutex {};", "    /** last log container (not owned) */\n    LogContainer * m_tail {};\n\n    /** mutex */\n    mutable std::mutex m_mutex {};"]],
    ['C11', 'C10'], ['O5|non-owning'], 'a raw pointer into the shared_ptr-managed container list dangles after dropOldData()')
mut('container-skipped-when-reader-ahead', 'UncompressedFile.cpp', [["    /* close a partly filled log container, so that the appended one continues at the put position */", "    if (m_tellp < m_tellg) {\n        m_tellp += logContainer->uncompressedFileSize;\n        tellpChanged.notify_all();\n        return;\n    }\n\n    /* close a partly filled log container, so that the appended one continues at the put position */"]],
    ['C09', 'C15', 'C01'], ['R5|UncompressedFile::write/container'], 'a container that starts behind the get position but ends in front of it is thrown away')

UPTR0 = ["#include <iostream>\n", "#include <iostream>\n#include <memory>\n"]
UPTR1 = ["    /* create object */\n    ObjectHeaderBase * obj = createObject(ohb.objectType);", "    /* create object (owned here until it is handed over) */\n    std::unique_ptr<ObjectHeaderBase> owner(createObject(ohb.objectType));\n    ObjectHeaderBase * obj = owner.get();"]
UPTR2 = ["    m_readWriteQueue.write(obj);\n\n    /* drop old data */", "    m_readWriteQueue.write(owner.release());\n\n    /* drop old data */"]
mut('smart-owner-plus-leftover-delete', 'File.cpp', [UPTR0, UPTR1, UPTR2],
    ['C13'], ['O2|File::uncompressedFile2ReadWriteQueue|owner'], 'the error path still deletes the object the unique_ptr owns: double free on a truncated object')

mut('compressed-seekg-clears-state', 'CompressedFile.cpp', [["    m_file.seekg(off, way);", "    m_file.clear();\n    m_file.seekg(off, way);"]],
    ['C08'], ['E4|CompressedFile'], 'the padding seek behind a short container read wipes eof|fail before File checks good()')
mut('open-returns-before-workers', 'File.cpp', [["        fileStatistics.read(m_compressedFile);\n", "        fileStatistics.read(m_compressedFile);\n        if (!m_compressedFile.good())\n            return;\n"]],
    ['C13', 'C08'], ['O3|open|workers-started'], 'a file cut inside its header: open() succeeds, no worker ever declares the end, read() blocks')
mut('failed-open-declares-end', 'File.cpp', [["    if (!m_compressedFile.is_open())\n        return;\n    m_openMode = mode;", "    if (!m_compressedFile.is_open()) {\n        m_readWriteQueue.setFileSize(m_readWriteQueue.tellp());\n        return;\n    }\n    m_openMode = mode;"]],
    ['C13'], ['O3|open|no-session-no-effect'], 'after a failed open the queue has a declared end of 0: the next successful open delivers nothing')
mut('read-returns-on-abort-before-end-handling', 'UncompressedFile.cpp', [["    m_requestedEnd = 0;\n", "    m_requestedEnd = 0;\n    if (m_abort) {\n        m_gcount = 0;\n        tellgChanged.notify_all();\n        return;\n    }\n"]],
    ['C15', 'C06'], ['R2|read|end-handling-on-every-path'], 'an aborted read returns short with the state good: the header decoder spins, close() waits for the join')
mut('restore-offset-adjusted', 'File.cpp', [["            fileStatistics.restorePointsOffset = static_cast<uint64_t>(m_compressedFile.tellp());\n", "            fileStatistics.restorePointsOffset = static_cast<uint64_t>(m_compressedFile.tellp());\n            fileStatistics.restorePointsOffset -= LogContainer().calculateObjectSize();\n"]],
    ['C05'], ['H2|close|write'], 'the restore-point offset no longer designates the start of the trailing container')

mut('throw-on-declared-header-size', 'File.cpp', [["    if (ohb.objectSize < ohb.calculateHeaderSize()) {", "    if ((ohb.objectSize < ohb.calculateHeaderSize()) || (ohb.objectSize < ohb.headerSize)) {"]],
    ['C09'], ['S2|skip-and-throw-reasons'], 'an unknown object whose declared headerSize exceeds its objectSize ends the stream instead of being skipped')
mut('factory-asked-conditionally', 'File.cpp', [["    ObjectHeaderBase * obj = createObject(ohb.objectType);\n    if (obj == nullptr) {", "    ObjectHeaderBase * obj = (ohb.headerSize >= 32) ? createObject(ohb.objectType) : nullptr;\n    if (obj == nullptr) {"]],
    ['C09', 'C17', 'C01'], ['S2|skip-and-throw-reasons'], 'a LogContainer inside the stream (16-byte header) is dropped although the factory knows its type')
mut('continue-at-padded-end', 'File.cpp', [["(objectBegin + static_cast<std::streamoff>(ohb.objectSize));", "(objectBegin + static_cast<std::streamoff>(ohb.objectSize + (ohb.objectSize % 4)));"]],
    ['C09', 'C10'], ['T1|decode-loop'], 'the worker continues behind the padding it assumes: the first bytes of a following signature are swallowed when fewer fill bytes follow')
mut('codes-swapped', 'ObjectHeaderBase.h', [["    DISTRIBUTED_OBJECT_MEMBER = 130,", "    DISTRIBUTED_OBJECT_MEMBER = 131,"], ["    ATTRIBUTE_EVENT = 131", "    ATTRIBUTE_EVENT = 130"]],
    ['C17'], ['D7|code|'], 'two enumerators exchange their numbers: consistent by name, every file of the two types decodes as the other')
mut('file-member-without-initialiser', 'File.h', [["    std::atomic<bool> m_compressedFileThreadRunning {};", "    std::atomic<bool> m_compressedFileThreadRunning {};\n\n    /** offset of the restore points */\n    uint64_t m_restorePointsOffset;"]],
    ['C14'], ['D4|File|m_restorePointsOffset'], 'a File member that reaches the header has no initialiser')
mut('container-size-rounded-up', 'File.cpp', [["void File::setDefaultLogContainerSize(uint32_t defaultLogContainerSize) {\n", "void File::setDefaultLogContainerSize(uint32_t defaultLogContainerSize) {\n    defaultLogContainerSize = (defaultLogContainerSize + 3) & ~3u;\n"]],
    ['C04'], ['F4|configured-size|File::setDefaultLogContainerSize'], 'containers larger than the configured size whenever that is not a multiple of four')
mut('cached-read-container', 'UncompressedFile.cpp', [["        /* find starting log container */\n        std::shared_ptr<LogContainer> logContainer = logContainerContaining(m_tellg);\n        if (!logContainer)\n            break;",
                                                          "        /* find starting log container */\n        std::shared_ptr<LogContainer> logContainer = m_getLogContainer;\n        if (!logContainer || (m_tellg >= logContainer->uncompressedFileSize + logContainer->filePosition)) {\n            logContainer = logContainerContaining(m_tellg);\n            m_getLogContainer = logContainer;\n        }\n        if (!logContainer)\n            break;"]],
    ['C15', 'C10', 'C01'], ['B7|UncompressedFile::read'], 'the cached container is stale after seekg() moved the get position back over its start: negative offset')
M[-1]['extra_edits'] = [('UncompressedFile.h', [["    /** put position */\n    std::streampos m_tellp {};", "    /** log container of the last read */\n    std::shared_ptr<LogContainer> m_getLogContainer {};\n\n    /** put position */\n    std::streampos m_tellp {};"]])]
mut('data-tail-skipped', 'CanFdMessage.cpp', [["    is.read(reinterpret_cast<char *>(data.data()), static_cast<std::streamsize>(data.size()));", "    is.read(reinterpret_cast<char *>(data.data()), validDataBytes & 63);\n    is.seekg(static_cast<std::streamoff>(data.size()) - (validDataBytes & 63), std::ios_base::cur);"]],
    ['C02'], ['L7|CanFdMessage|skip'], 'the bytes of the fixed data field behind validDataBytes are stepped over: an image that carries something there is not reproduced')

mut('object-flags-masked-on-read', 'ObjectHeader.cpp', [["    is.read(reinterpret_cast<char *>(&objectFlags), sizeof(objectFlags));\n    is.read(reinterpret_cast<char *>(&clientIndex), sizeof(clientIndex));\n    is.read(reinterpret_cast<char *>(&objectVersion), sizeof(objectVersion));\n    is.read(reinterpret_cast<char *>(&objectTimeStamp), sizeof(objectTimeStamp));\n}\n\nvoid ObjectHeader::write",
                                                              "    is.read(reinterpret_cast<char *>(&objectFlags), sizeof(objectFlags));\n    is.read(reinterpret_cast<char *>(&clientIndex), sizeof(clientIndex));\n    is.read(reinterpret_cast<char *>(&objectVersion), sizeof(objectVersion));\n    is.read(reinterpret_cast<char *>(&objectTimeStamp), sizeof(objectTimeStamp));\n    objectFlags &= 3;\n}\n\nvoid ObjectHeader::write"]],
    ['C02'], ['overwritten:objectFlags'], 'flag bits other than the two known ones are dropped on decode: the image is not reproduced')
mut('container-size-16-bit-accumulator', 'LogContainer.cpp', [["    return\n        internalHeaderSize() +\n        static_cast<uint32_t>(compressedFile.size());", "    auto size = internalHeaderSize();\n    size += static_cast<uint32_t>(compressedFile.size());\n    return size;"]],
    ['C04', 'C03'], ['L3|LogContainer'], 'the container objectSize wraps at 65536: stored containers of 64 KiB and more are mis-declared')
mut('close-aborts-before-stopping-inflater', 'File.cpp', [["        /* finalize compressedFileThread */\n        m_compressedFileThreadRunning = false;\n        m_compressedFile.close();\n\n        /* finalize uncompressedFileThread */\n        m_uncompressedFileThreadRunning = false;\n        m_uncompressedFile.abort();\n\n        /* abort readWriteQueue */\n        m_readWriteQueue.abort();\n\n        /* finalize compressedFileThread */\n        if (m_compressedFileThread.joinable())\n            m_compressedFileThread.join();\n",
                                                              "        /* finalize uncompressedFileThread */\n        m_uncompressedFileThreadRunning = false;\n        m_uncompressedFile.abort();\n\n        /* abort readWriteQueue */\n        m_readWriteQueue.abort();\n\n        /* finalize compressedFileThread */\n        if (m_compressedFileThread.joinable())\n            m_compressedFileThread.join();\n        m_compressedFileThreadRunning = false;\n        m_compressedFile.close();\n"]],
    ['C12'], ['K14|close|read'], 'an early close inflates the rest of the file into memory before it returns')
mut('read-drops-consumed', 'UncompressedFile.cpp', [["        n -= gcount;\n    }\n\n    /* notify */\n    tellgChanged.notify_all();", "        n -= gcount;\n    }\n    while (!m_data.empty() && (m_data.front()->uncompressedFileSize + m_data.front()->filePosition <= m_tellg))\n        m_data.pop_front();\n\n    /* notify */\n    tellgChanged.notify_all();"]],
    ['C15', 'C12', 'C01'], ['P9|who-may-drop'], 'a read releases what it passed: the header peek followed by seekg(-16) across a container border returns into nothing')
mut('queue-write-drops-when-full', 'ObjectQueue.cpp', [["    /* push data */\n    m_queue.push(obj);", "    if (static_cast<uint32_t>(m_queue.size()) >= m_bufferSize) {\n        delete obj;\n        return;\n    }\n\n    /* push data */\n    m_queue.push(obj);"]],
    ['C16'], ['Q5|write'], 'an object written while the queue is aborted and full is deleted instead of delivered')
mut('queue-eof-by-difference', 'ObjectQueue.cpp', [["        (m_tellg >= m_fileSize);", "        ((m_fileSize - m_tellg) == 0);"]],
    ['C16'], ['Q4|read'], 'a declared size below the get count wraps: the reader is never released')
mut('queue-shift-eof-to-sentinel', 'ObjectQueue.cpp', [["    if (m_tellp > m_fileSize)\n        m_fileSize = m_tellp;", "    if (m_tellp > m_fileSize)\n        m_fileSize = std::numeric_limits<uint32_t>::max();"]],
    ['C16'], ['Q6|write'], 'a write past the declared end forgets the end: the reader that drained the queue blocks (round-7 seed C16-r7b)')
mut('step-back-spares-padding', 'File.cpp', [["    if (readTooMuch > 0) {\n        m_uncompressedFile.seekg(-readTooMuch, std::ios_base::cur);", "    if (readTooMuch > static_cast<std::streamoff>(ohb.objectSize % 4)) {\n        m_uncompressedFile.seekg(-readTooMuch, std::ios_base::cur);"]],
    ['C09'], ['T1|decode-loop'], 'the step back to the declared end spares the padding: with less filler than the padding the next signature is missed (round-7 seed C09-r7a)')
# ---- round-5 benign twins turned bad: the generalised rules must still see the difference
mut('size-guard-helper-too-weak', 'File.cpp', [["void File::uncompressedFile2ReadWriteQueue() {\n    /* identify type */", "/** an object cannot have a negative size */\nstatic bool objectSizeCoversHeader(const ObjectHeaderBase & ohb) {\n    return ohb.objectSize >= 0;\n}\n\nvoid File::uncompressedFile2ReadWriteQueue() {\n    /* identify type */"],
                                            ["    if (ohb.objectSize < ohb.calculateHeaderSize()) {", "    if (!objectSizeCoversHeader(ohb)) {"]],
    ['C10', 'C09'], ['T1|', 'S2|'], 'the extracted size guard admits every size: an unknown object declaring size 0 is skipped by 0 bytes and found again forever')
mut('named-predicate-without-abort', 'ObjectQueue.cpp', [["    tellpChanged.wait(lock, [&] {\n        return\n        m_abort ||\n        !m_queue.empty() ||\n        (m_tellg >= m_fileSize);\n    });", "    const auto dataOrEnd = [&] {\n        return\n        !m_queue.empty() ||\n        !(m_tellg < m_fileSize);\n    };\n    tellpChanged.wait(lock, dataOrEnd);"]],
    ['C06', 'C16'], ['K2|'], 'the named wait predicate lost its abort atom: abort() cannot release the reader')
mut('finder-end-inclusive', 'UncompressedFile.cpp', [["            (pos >= logContainer->filePosition) &&\n            (pos < logContainer->uncompressedFileSize + logContainer->filePosition);", "            !(pos < logContainer->filePosition) &&\n            (logContainer->uncompressedFileSize + logContainer->filePosition >= pos);"]],
    ['C15', 'C10'], ['B7|logContainerContaining|postcondition'], 'the position one behind a container is attributed to it: a copy of 0 bytes, then an endless loop')
mut('pad-buffer-too-small', 'Most150MessageFragment.cpp', [["    /* skip padding */\n    os.skipp(objectSize % 4);\n}", "    /* write padding */\n    const char padding[2] = { 0, 0 };\n    os.write(padding, objectSize % 4);\n}"]],
    ['C14'], ['B2|'], 'up to three bytes are written out of a two-byte local buffer: stack contents reach the file')
mut('pad-buffer-not-zero', 'Most150MessageFragment.cpp', [["    /* skip padding */\n    os.skipp(objectSize % 4);\n}", "    /* write padding */\n    const char padding[4] = { 0, 0, 0, 1 };\n    os.write(padding, objectSize % 4);\n}"]],
    ['C02', 'C04'], ['L'], 'the padding is not written as zeros')
mut('end-of-queue-state-without-eof', 'ObjectQueue.cpp', [["template<typename T>\nObjectQueue<T>::~ObjectQueue() {", "namespace {\nconst std::ios_base::iostate endOfQueueState = std::ios_base::failbit;\n}\n\ntemplate<typename T>\nObjectQueue<T>::~ObjectQueue() {"],
                                                       ["        m_rdstate = std::ios_base::eofbit | std::ios_base::failbit;", "        m_rdstate = endOfQueueState;"]],
    ['C16'], ['Q2|read|empty'], 'the named end state lacks eofbit: the end of the queue is reported as a failure, never as end-of-file')
# ---- round-6 rules
mut('close-mode-by-equality', 'File.cpp', [["    /* read */\n    if (m_openMode & std::ios_base::in) {\n        /* finalize compressedFileThread */", "    /* read */\n    if (m_openMode == std::ios_base::in) {\n        /* finalize compressedFileThread */"]],
    ['C13', 'C06'], ['M1|'], 'close() of a session opened with in | binary takes no branch: nothing is joined')
mut('deflater-stops-on-output-error', 'File.cpp', [["            if (!file->m_uncompressedFile.good())\n                file->m_compressedFileThreadRunning = false;\n        }\n\n        /* set end of file */", "            if (!file->m_uncompressedFile.good() || !file->m_compressedFile.good())\n                file->m_compressedFileThreadRunning = false;\n        }\n\n        /* set end of file */"]],
    ['C06', 'C13'], ['ends-on-input'], 'the compression thread leaves when the disk is full; the encoder in front of it blocks for ever')
mut('empty-container-not-counted', 'File.cpp', [["    /* statistics */\n    currentUncompressedFileSize +=\n        logContainer->internalHeaderSize() +", "    if (logContainer->compressedFileSize == 0)\n        return;\n\n    /* statistics */\n    currentUncompressedFileSize +=\n        logContainer->internalHeaderSize() +"]],
    ['C05'], ['H1|'], 'containers without payload are stepped over before they are counted')
mut('seekg-clamp-forward-only', 'UncompressedFile.cpp', [["    m_tellg = std::min(static_cast<std::streamsize>(m_tellg + off), m_fileSize);", "    m_tellg += off;\n    if ((off > 0) && (m_tellg > m_fileSize))\n        m_tellg = m_fileSize;"]],
    ['C15', 'C09'], ['S4|seekg'], 'a backward seek behind a lowered declared end stays behind it')
mut('queue-write-clears-abort', 'ObjectQueue.cpp', [["    /* push data */\n    m_queue.push(obj);", "    /* new data opens the queue again */\n    m_abort = false;\n\n    /* push data */\n    m_queue.push(obj);"]],
    ['C16', 'C06'], ['K15|'], 'a producer released by abort() re-arms the queue: the next read of the drained queue blocks')
mut('worker-closes-file', 'File.cpp', [["    } catch (...) {\n        file->m_compressedFileThreadException = std::current_exception();\n    }\n\n    /* set end of file (on every way out, otherwise the consumer waits forever) */", "    } catch (...) {\n        file->m_compressedFileThreadException = std::current_exception();\n        file->m_compressedFile.close();\n    }\n\n    /* set end of file (on every way out, otherwise the consumer waits forever) */"]],
    ['C13', 'C10'], ['O6|'], 'the worker closes the file: close() sees !is_open() and returns without joining')
mut('level-read-before-stream-read', 'File.cpp', [["    /* setup new log container */\n    LogContainer logContainer;\n\n    /* copy data into LogContainer */", "    /* setup new log container */\n    LogContainer logContainer;\n    const int level = compressionLevel;\n\n    /* copy data into LogContainer */"],
                                                  ["    if (compressionLevel == 0) {\n        /* no compression */\n        logContainer.compress(0, 0);\n    } else {\n        /* zlib compression */\n        logContainer.compress(2, compressionLevel);", "    if (level == 0) {\n        /* no compression */\n        logContainer.compress(0, 0);\n    } else {\n        /* zlib compression */\n        logContainer.compress(2, level);"]],
    ['C14', 'C11', 'C04'], ['K9c|'], 'the level is fetched before the blocking read: an assignment between open() and the first write() may be missed')
mut('step-back-in-int', 'File.cpp', [["    const std::streamoff readTooMuch = m_uncompressedFile.tellg() - (objectBegin + static_cast<std::streamoff>(ohb.objectSize));", "    const int readTooMuch = static_cast<int>(m_uncompressedFile.tellg() - (objectBegin + static_cast<std::streamoff>(static_cast<int>(ohb.objectSize))));"]],
    ['C10', 'C09'], ['T1|'], 'the distance to the declared end is squeezed into an int')
mut('writer-admitted-if-piece-fits', 'UncompressedFile.cpp', [["        ((m_tellp - m_tellg) < m_bufferSize) ||\n        (m_tellp < m_requestedEnd);\n    });\n\n    /* write data */", "        ((m_tellp - m_tellg) < m_bufferSize) ||\n        (m_tellp + n <= m_requestedEnd);\n    });\n\n    /* write data */"]],
    ['C06', 'C07', 'C01'], ['T2|write|admission'], 'a piece that straddles the end of the request is not admitted although the reader waits for its first bytes')
mut('can2-throws-after-header', 'CanMessage2.cpp', [["#include <Vector/BLF/CanMessage2.h>\n", "#include <Vector/BLF/CanMessage2.h>\n#include <Vector/BLF/Exceptions.h>\n"], ["    os.write(reinterpret_cast<char *>(data.data()), static_cast<std::streamsize>(data.size()));", "    if (data.size() > 8)\n        throw Exception(\"CanMessage2::write(): more than 8 data bytes\");\n    os.write(reinterpret_cast<char *>(data.data()), static_cast<std::streamsize>(data.size()));"]],
    ['C03'], ['throws-after'], 'the encoder gives up after the header has been written')
mut('objecttype-set-in-write', 'CanMessage.cpp', [["void CanMessage::write(AbstractFile & os) {\n    ObjectHeader::write(os);", "void CanMessage::write(AbstractFile & os) {\n    objectType = ObjectType::CAN_MESSAGE;\n    ObjectHeader::write(os);"]],
    ['C17'], ['D5|objectType|never-reassigned'], 'the encoder overwrites the type code the object carries')
mut('file-write-diverts-restore-points', 'File.cpp', [["void File::write(ObjectHeaderBase * ohb) {\n", "void File::write(ObjectHeaderBase * ohb) {\n    if (ohb->objectType == ObjectType::Unknown115) {\n        delete ohb;\n        return;\n    }\n"]],
    ['C01', 'C13'], ['A1|File::write'], 'objects of one type handed to write() never reach the queue')
mut('end-of-stream-from-side-count', 'File.cpp', [["    /* set end of file (on every way out, otherwise the consumer waits forever) */\n    file->m_uncompressedFile.setFileSize(file->m_uncompressedFile.tellp());\n}\n\nvoid File::compressedFileWriteThread", "    /* set end of file (on every way out, otherwise the consumer waits forever) */\n    file->m_uncompressedFile.setFileSize(static_cast<std::streamsize>(file->currentUncompressedFileSize));\n}\n\nvoid File::compressedFileWriteThread"]],
    ['C06', 'C10', 'C08'], ['K5v|File::compressedFileReadThread'], 'the declared end comes from a count kept on the side, not from what was delivered')
mut('open-adds-in-flag', 'CompressedFile.cpp', [["    m_file.open(filename, openMode);", "    m_file.open(filename, openMode | std::ios_base::in);"]],
    ['C14', 'C04'], ['F7|CompressedFile::open'], 'an output file is no longer truncated: the tail of an earlier, longer file survives')

# ------------------------------------------------------------------ benign refactorings (must stay silent)
ALL_LAYOUT = ['C01', 'C02', 'C03', 'C10', 'C14']
ben('reorder-size-terms', 'AppText.cpp', [["        sizeof(source) +\n        sizeof(reservedAppText1) +", "        sizeof(reservedAppText1) +\n        sizeof(source) +"]], ALL_LAYOUT)
ben('nested-version-guards', 'LinMessage2.cpp', [["    /* the following variables are only available in Version 2 and above */\n    if (apiMajor < 2)\n        return;\n    os.write(reinterpret_cast<char *>(&respBaudrate), sizeof(respBaudrate));\n\n    /* the following variables are only available in Version 3 and above */\n    if (apiMajor < 3)\n        return;\n" + W('exactHeaderBaudrate') + W('earlyStopbitOffset') + W('earlyStopbitOffsetResponse'),
                                                     "    if (apiMajor >= 2) {\n    " + W('respBaudrate') + "        if (apiMajor >= 3) {\n    " + W('exactHeaderBaudrate') + "    " + W('earlyStopbitOffset') + "    " + W('earlyStopbitOffsetResponse') + "        }\n    }\n"]], ALL_LAYOUT)
ben('sizeof-type-instead-of-member', 'AppText.cpp', [[R('source'), "    is.read(reinterpret_cast<char *>(&source), sizeof(uint32_t));\n"]], ALL_LAYOUT)
ben('serial-size-else-chain', 'SerialEvent.cpp', [["    if (!(flags & Flags::SingleByte) && !(flags & Flags::CompactByte))\n        size +=", "    if (flags & Flags::SingleByte) {\n    } else if (flags & Flags::CompactByte) {\n    } else\n        size +="]], ALL_LAYOUT)
ben('size-accumulator', 'CanMessage.cpp', [["uint32_t CanMessage::calculateObjectSize() const {\n    return\n        ObjectHeader::calculateObjectSize() +", "uint32_t CanMessage::calculateObjectSize() const {\n    uint32_t size = ObjectHeader::calculateObjectSize();\n    size +="],
                                           ["        static_cast<uint32_t>(data.size());\n}", "        static_cast<uint32_t>(data.size());\n    return size;\n}"]], ALL_LAYOUT)
PIPE = ['C04', 'C05', 'C06', 'C07', 'C08', 'C09', 'C10', 'C11', 'C12', 'C13', 'C16']
ben('lock-guard-to-unique-lock', 'UncompressedFile.cpp', [["std::streamsize UncompressedFile::gcount() const {\n    /* mutex lock */\n    std::lock_guard<std::mutex> lock(m_mutex);", "std::streamsize UncompressedFile::gcount() const {\n    /* mutex lock */\n    std::unique_lock<std::mutex> lock(m_mutex);"]], PIPE)
ben('local-for-container-size', 'File.cpp', [["    logContainer.uncompressedFile.resize(m_uncompressedFile.defaultLogContainerSize());\n    m_uncompressedFile.read(\n        reinterpret_cast<char *>(logContainer.uncompressedFile.data()),\n        m_uncompressedFile.defaultLogContainerSize());",
                                              "    const uint32_t containerSize = m_uncompressedFile.defaultLogContainerSize();\n    logContainer.uncompressedFile.resize(containerSize);\n    m_uncompressedFile.read(\n        reinterpret_cast<char *>(logContainer.uncompressedFile.data()),\n        containerSize);"]], PIPE)
ben('statistics-before-encode', 'File.cpp', [["    /* write into uncompressedFile */\n    ohb->write(m_uncompressedFile);\n\n    /* statistics */\n    if (ohb->objectType != ObjectType::Unknown115)\n        currentObjectCount++;\n", "    /* statistics */\n    if (ohb->objectType != ObjectType::Unknown115)\n        currentObjectCount++;\n\n    /* write into uncompressedFile */\n    ohb->write(m_uncompressedFile);\n"]], PIPE)
ben('swap-aborts', 'File.cpp', [["        m_uncompressedFile.abort();\n\n        /* abort readWriteQueue */\n        m_readWriteQueue.abort();\n", "        m_readWriteQueue.abort();\n\n        /* abort uncompressedFile */\n        m_uncompressedFile.abort();\n"]], PIPE)
ben('predicate-reordered', 'ObjectQueue.cpp', [["        return\n        m_abort ||\n        !m_queue.empty() ||\n        (m_tellg >= m_fileSize);", "        return\n        !m_queue.empty() ||\n        (m_tellg >= m_fileSize) ||\n        m_abort;"]], PIPE)
ben('null-check-inverted', 'File.cpp', [["    /* process data */\n    if (ohb == nullptr) {\n        // Read intentionally returns, when the thread is aborted.\n        return;\n    }\n\n    /* write into uncompressedFile */\n    ohb->write(m_uncompressedFile);\n\n    /* statistics */\n    if (ohb->objectType != ObjectType::Unknown115)\n        currentObjectCount++;\n\n    /* delete object */\n    delete ohb;\n",
                                         "    /* process data */\n    if (ohb != nullptr) {\n        /* write into uncompressedFile */\n        ohb->write(m_uncompressedFile);\n\n        /* statistics */\n        if (ohb->objectType != ObjectType::Unknown115)\n            currentObjectCount++;\n\n        /* delete object */\n        delete ohb;\n    }\n"]], PIPE)
ben('stat-from-vector-size', 'File.cpp', [["        logContainer.internalHeaderSize() +\n        logContainer.uncompressedFileSize;", "        logContainer.internalHeaderSize() +\n        logContainer.uncompressedFile.size();"]], ['C05', 'C04'],
    'equal to the field while the size invariant established by resize(uncompressedFileSize) holds')
mut('stat-from-moved-vector', 'File.cpp', [["        logContainer.internalHeaderSize() +\n        logContainer.uncompressedFileSize;", "        logContainer.internalHeaderSize() +\n        logContainer.uncompressedFile.size();"]],
    ['C05'], ['H1|File::uncompressedFile2CompressedFile'], 'two cooperating sites: statistic from the vector size + compress() moving the vector out (level 0 only)')
M[-1]['extra_edits'] = [('LogContainer.cpp', [["        compressedFile = uncompressedFile;\n        compressedFileSize = uncompressedFileSize;", "        compressedFile = std::move(uncompressedFile);\n        compressedFileSize = uncompressedFileSize;"]])]
ben('good-check-explicit-false', 'File.cpp', [["    obj->read(m_uncompressedFile);\n    if (!m_uncompressedFile.good()) {", "    obj->read(m_uncompressedFile);\n    if (m_uncompressedFile.good() == false) {"]], ['C08', 'C01', 'C13', 'C11', 'C10'])
ben('factory-return-style', 'File.cpp', [["    case ObjectType::CAN_ERROR:\n        obj = new CanErrorFrame();\n        break;", "    case ObjectType::CAN_ERROR:\n        return new CanErrorFrame();"]], ['C17', 'C01'])
ben('close-statistics-reordered', 'File.cpp', [["        fileStatistics.fileSize = static_cast<uint64_t>(m_compressedFile.tellp());\n        fileStatistics.uncompressedFileSize = currentUncompressedFileSize;\n        fileStatistics.objectCount = currentObjectCount;", "        fileStatistics.objectCount = currentObjectCount;\n        fileStatistics.uncompressedFileSize = currentUncompressedFileSize;\n        fileStatistics.fileSize = static_cast<uint64_t>(m_compressedFile.tellp());"]], ['C05', 'C04', 'C13'])
ben('stream-read-renamed-locals', 'UncompressedFile.cpp', [["        std::streamoff offset = m_tellg - logContainer->filePosition;\n\n        /* copy data */\n        std::streamsize gcount = std::min(n, static_cast<std::streamsize>(logContainer->uncompressedFileSize - offset));\n        std::copy(logContainer->uncompressedFile.cbegin() + offset, logContainer->uncompressedFile.cbegin() + offset + gcount, s);\n\n        /* remember get count */\n        m_gcount += gcount;\n\n        /* new get position */\n        m_tellg += gcount;\n\n        /* advance */\n        s += gcount;\n\n        /* calculate remaining data to copy */\n        n -= gcount;",
                                                                   "        std::streamoff off = m_tellg - logContainer->filePosition;\n\n        /* copy data */\n        std::streamsize cnt = std::min(n, static_cast<std::streamsize>(logContainer->uncompressedFileSize - off));\n        std::copy(logContainer->uncompressedFile.cbegin() + off, logContainer->uncompressedFile.cbegin() + off + cnt, s);\n\n        /* remember get count */\n        m_gcount += cnt;\n\n        /* new get position */\n        m_tellg += cnt;\n\n        /* advance */\n        s += cnt;\n\n        /* calculate remaining data to copy */\n        n -= cnt;"]], ['C10', 'C11', 'C07', 'C06', 'C15'])
ben('append-cut-without-offset-local', 'UncompressedFile.cpp', [["        std::streamoff offset = m_tellp - lastLogContainer->filePosition;\n        lastLogContainer->uncompressedFile.resize(offset);\n        lastLogContainer->uncompressedFileSize = offset;",
                                                                    "        lastLogContainer->uncompressedFile.resize(m_tellp - lastLogContainer->filePosition);\n        lastLogContainer->uncompressedFileSize = lastLogContainer->uncompressedFile.size();"]], ['C10', 'C15'])
ben('append-position-before-push', 'UncompressedFile.cpp', [["    m_data.push_back(logContainer);\n    logContainer->filePosition = m_tellp;", "    logContainer->filePosition = m_tellp;\n    m_data.push_back(logContainer);"]], ['C10', 'C12', 'C15'])
ben('chain-through-local-last', 'UncompressedFile.cpp', [["                logContainer->filePosition =\n                    m_data.back()->uncompressedFileSize +\n                    m_data.back()->filePosition;",
                                                             "                const std::shared_ptr<LogContainer> & last = m_data.back();\n                logContainer->filePosition = last->uncompressedFileSize + last->filePosition;"]], ['C10', 'C12', 'C15'])
ben('append-cut-early-return-form', 'UncompressedFile.cpp', [["    if (lastLogContainer) {\n        std::streamoff offset = m_tellp - lastLogContainer->filePosition;\n        lastLogContainer->uncompressedFile.resize(offset);\n        lastLogContainer->uncompressedFileSize = offset;\n    }\n",
                                                                 "    if (lastLogContainer != nullptr) {\n        const std::streamoff used = m_tellp - lastLogContainer->filePosition;\n        lastLogContainer->uncompressedFileSize = used;\n        lastLogContainer->uncompressedFile.resize(used);\n    }\n"]], ['C10', 'C15'])
ben('stream-loops-not-equal-zero', 'UncompressedFile.cpp', [["    /* write data */\n    while (n > 0) {", "    /* write data */\n    while (n != 0) {"]], ['C10', 'C15', 'C04'])
ben('open-resets-counters-after-guard', 'File.cpp', [["        return;\n    m_openMode = mode;\n", "        return;\n    m_openMode = mode;\n    currentUncompressedFileSize = 0;\n    currentObjectCount = 0;\n"]], ['C05', 'C07', 'C11', 'C13'])
ben('systemvariable-skip-empty-payload', 'SystemVariable.cpp', [["    os.write(reinterpret_cast<char *>(data.data()), dataLength);\n\n    /* skip padding */\n    os.skipp(objectSize % 4);", "    if (!data.empty())\n        os.write(reinterpret_cast<char *>(data.data()), dataLength);\n\n    /* skip padding */\n    os.skipp(objectSize % 4);"]], ALL_LAYOUT)
SER_IF = "    if (flags & Flags::SingleByte)\n        singleByte.write(os);\n    else {\n        if (flags & Flags::CompactByte)\n            compact.write(os);\n        else\n            general.write(os);\n    }\n"
SER_SW = "    switch (flags & (Flags::SingleByte | Flags::CompactByte)) {\n    case Flags::SingleByte:\n    case Flags::SingleByte | Flags::CompactByte:\n        singleByte.write(os);\n        break;\n    case Flags::CompactByte:\n        compact.write(os);\n        break;\n    default:\n        general.write(os);\n        break;\n    }\n"
ben('serialevent-write-switch-complete', 'SerialEvent.cpp', [[SER_IF, SER_SW]], ALL_LAYOUT)
ben('unsigned-buffer-size', 'UncompressedFile.h', [["    std::streamsize m_bufferSize {std::numeric_limits<std::streamsize>::max()};", "    std::size_t m_bufferSize {std::numeric_limits<std::size_t>::max()};"]],
    ['C06', 'C07', 'C09', 'C10'], 'was a deadlock under the fill-level protocol (seeds C06-r2a, C09-r2a, C10-r2a, C07-r3a); with the request hand-off of fix d3846c0 the wrapped comparison can no longer block the producer for good (demo of C07-r3a passes at HEAD)')
ben('container-pad-by-read-roundtrip', 'LogContainer.cpp', [[PAD_SEEK, PAD_READ]], ['C01', 'C02', 'C03', 'C04', 'C10'],
    'reading the alignment bytes into a scratch buffer moves the position like the seek does: harmless for complete files (it is a C08 mutant)')
ben('drop-at-function-start', 'File.cpp', [["void File::uncompressedFile2ReadWriteQueue() {\n    /* identify type */\n", "void File::uncompressedFile2ReadWriteQueue() {\n    /* release what the previous call consumed */\n    m_uncompressedFile.dropOldData();\n\n    /* identify type */\n"]],
    ['C06', 'C12', 'C01', 'C11', 'C07'], 'an additional drop before anything is consumed: the rewinds behind it only take back what was read since')
ben('gcount-local-accumulator', 'UncompressedFile.cpp', [["    m_gcount = 0;\n    while (n > 0) {", "    std::streamsize count = 0;\n    while (n > 0) {"],
                                                             ["        m_gcount += gcount;", "        count += gcount;"],
                                                             ["        n -= gcount;\n    }\n\n    /* notify */\n    tellgChanged.notify_all();", "        n -= gcount;\n    }\n    m_gcount = count;\n\n    /* notify */\n    tellgChanged.notify_all();"]],
    ['C15', 'C10', 'C11'], 'one half of seed C15-r3a: harmless as long as nothing returns from inside the loop')
ben('reposition-inline-condition', 'File.cpp', [["    const std::streamoff readTooMuch = m_uncompressedFile.tellg() - (objectBegin + static_cast<std::streamoff>(ohb.objectSize));\n    if (readTooMuch > 0) {\n        m_uncompressedFile.seekg(-readTooMuch, std::ios_base::cur);\n    }\n",
                                                 "    const std::streampos objectEnd = objectBegin + static_cast<std::streamoff>(ohb.objectSize);\n    const std::streamoff readTooMuch = m_uncompressedFile.tellg() - objectEnd;\n    if (readTooMuch > 0)\n        m_uncompressedFile.seekg(-readTooMuch, std::ios_base::cur);\n"]],
    ['C10', 'C09', 'C01', 'C11', 'C12', 'C06'], 'the declared end as a named local')
UPTR1 = ["    /* create object */\n    ObjectHeaderBase * obj = createObject(ohb.objectType);", "    /* create object (owned here until it is handed over) */\n    std::unique_ptr<ObjectHeaderBase> owner(createObject(ohb.objectType));\n    ObjectHeaderBase * obj = owner.get();"]
UPTR2 = ["    m_readWriteQueue.write(obj);\n\n    /* drop old data */", "    m_readWriteQueue.write(owner.release());\n\n    /* drop old data */"]
UPTR3 = ["        delete obj;\n        throw Exception(\"File::uncompressedFile2ReadWriteQueue(): Read beyond end of file.\");", "        throw Exception(\"File::uncompressedFile2ReadWriteQueue(): Read beyond end of file.\");"]
UPTR0 = ["#include <iostream>\n", "#include <iostream>\n#include <memory>\n"]
ben('decoded-object-in-unique-ptr', 'File.cpp', [UPTR0, UPTR1, UPTR2, UPTR3], ['C11', 'C13', 'C10', 'C08', 'C01', 'C09', 'C12'],
    'the complete conversion to a smart owner (the left-over delete removed): seed C13-r3b without its defect')
ben('header-guard-positive-form', 'File.cpp', [["    if (ohb.objectSize < ohb.calculateHeaderSize()) {\n        /* an object cannot be smaller than its header; skipping by such a size would never advance */\n        throw Exception(\"File::uncompressedFile2ReadWriteQueue(): Object size is smaller than the object header.\");\n    }\n",
                                                  "    if (!(ohb.objectSize >= ohb.calculateHeaderSize())) {\n        throw Exception(\"File::uncompressedFile2ReadWriteQueue(): Object size is smaller than the object header.\");\n    }\n"]], ['C10', 'C09', 'C08', 'C01'])
ben('close-extract-helpers', 'File.cpp', [["void File::close() {\n    /* check if file is open */\n    if (!is_open())\n        return;\n\n    /* read */\n    if (m_openMode & std::ios_base::in) {\n        /* finalize compressedFileThread */\n        m_compressedFileThreadRunning = false;\n        m_compressedFile.close();\n\n        /* finalize uncompressedFileThread */\n        m_uncompressedFileThreadRunning = false;\n        m_uncompressedFile.abort();\n\n        /* abort readWriteQueue */\n        m_readWriteQueue.abort();\n\n        /* finalize compressedFileThread */\n        if (m_compressedFileThread.joinable())\n            m_compressedFileThread.join();\n\n        /* finalize uncompressedFileThread */\n        if (m_uncompressedFileThread.joinable())\n            m_uncompressedFileThread.join();\n    }\n",
                                            "void File::stopReadSession() {\n    /* finalize compressedFileThread */\n    m_compressedFileThreadRunning = false;\n    m_compressedFile.close();\n\n    /* finalize uncompressedFileThread */\n    m_uncompressedFileThreadRunning = false;\n    m_uncompressedFile.abort();\n\n    /* abort readWriteQueue */\n    m_readWriteQueue.abort();\n\n    /* finalize compressedFileThread */\n    if (m_compressedFileThread.joinable())\n        m_compressedFileThread.join();\n\n    /* finalize uncompressedFileThread */\n    if (m_uncompressedFileThread.joinable())\n        m_uncompressedFileThread.join();\n}\n\nvoid File::close() {\n    /* check if file is open */\n    if (!is_open())\n        return;\n\n    /* read */\n    if (m_openMode & std::ios_base::in) {\n        stopReadSession();\n    }\n"]],
    ['C06', 'C13', 'C05', 'C11', 'C07', 'C04'], 'extract-method: the read-mode shutdown moved into a private helper')
G[-1]['extra_edits'] = [('File.h', [["    std::ios_base::openmode m_openMode {};", "    std::ios_base::openmode m_openMode {};\n\n    /** stop the two read threads (part of close()) */\n    void stopReadSession();"]])]
ben('queue-eof-atom-negated', 'ObjectQueue.cpp', [["        (m_tellg >= m_fileSize);\n    });\n\n    /* get first entry */", "        !(m_tellg < m_fileSize);\n    });\n\n    /* get first entry */"]],
    ['C16', 'C06', 'C07', 'C08'], 'the end-of-stream atom of the reader written as a negated comparison')
ben('queue-shift-eof-by-max', 'ObjectQueue.cpp', [["    if (m_tellp > m_fileSize)\n        m_fileSize = m_tellp;", "    m_fileSize = std::max(m_fileSize, m_tellp);"]],
    ['C16', 'C06', 'C07'], 'the shifted end written as a maximum')
ben('step-back-test-ge-one', 'File.cpp', [["    if (readTooMuch > 0) {\n        m_uncompressedFile.seekg(-readTooMuch, std::ios_base::cur);", "    if (readTooMuch >= 1) {\n        m_uncompressedFile.seekg(-readTooMuch, std::ios_base::cur);"]],
    ['C09', 'C08', 'C10', 'C01'], 'the step-back test written as >= 1')
ben('factory-without-parens', 'File.cpp', [["        obj = new CanErrorFrame();", "        obj = new CanErrorFrame;"]], ['C17', 'C01'])
ben('compression-branch-inverted', 'File.cpp', [["    if (compressionLevel == 0) {\n        /* no compression */\n        logContainer.compress(0, 0);\n    } else {\n        /* zlib compression */\n        logContainer.compress(2, compressionLevel);\n    }", "    if (compressionLevel != 0) {\n        /* zlib compression */\n        logContainer.compress(2, compressionLevel);\n    } else {\n        /* no compression */\n        logContainer.compress(0, 0);\n    }"]], PIPE)


def main():
    for kind, lst in (('mutants', M), ('benign', G)):
        d = os.path.join(os.environ.get('VERIF_ROOT', '/verif'), kind)
        for f in os.listdir(d):
            if f.endswith('.patch') and not f.startswith('agent') and not f.startswith('own-'):
                os.remove(os.path.join(d, f))
        for m in lst:
            src = open(os.path.join('/repo', m['file'])).read()
            new = src
            for old, rep in m['pairs']:
                if new.count(old) != 1 and not (m.get('all_occurrences') and new.count(old) > 1):
                    raise SystemExit('%s: pattern occurs %d times: %r' % (m['name'], new.count(old), old[:80]))
                new = new.replace(old, rep)
            diff = ''.join(difflib.unified_diff(src.splitlines(True), new.splitlines(True), 'a/' + m['file'], 'b/' + m['file']))
            for (f2, pairs2) in m.get('extra_edits', []):
                src2 = open(os.path.join('/repo', B + f2)).read()
                new2 = src2
                for old, rep in pairs2:
                    if new2.count(old) != 1:
                        raise SystemExit('%s: pattern occurs %d times: %r' % (m['name'], new2.count(old), old[:80]))
                    new2 = new2.replace(old, rep)
                diff += ''.join(difflib.unified_diff(src2.splitlines(True), new2.splitlines(True), 'a/' + B + f2, 'b/' + B + f2))
            open(os.path.join(d, m['name'] + '.patch'), 'w').write(diff)
            m['patch'] = m['name'] + '.patch'
    # refactorings authored independently by sub-agents (benign/agent-*.patch are kept as delivered; `git diff` format, -p1)
    ext_props = {'f': PIPE + ['C01', 'C10'], 'u': PIPE + ['C01', 'C10', 'C14', 'C15'], 'c': ALL_LAYOUT + ['C09', 'C04'],
                 'm': ['C01', 'C03', 'C04', 'C05', 'C06', 'C12', 'C14', 'C17']}
    ext = []
    for k_, props_ in ext_props.items():
        notes = {}
        np_ = os.path.join(os.environ.get('VERIF_ROOT', '/verif') + '/benign', 'agent-%s-notes.json' % k_)
        if os.path.exists(np_):
            notes = {n_['name']: n_ for n_ in json.load(open(np_))}
        for i_ in range(1, 7):
            f_ = 'agent-%s-r%d.patch' % (k_, i_)
            if os.path.exists(os.path.join(os.environ.get('VERIF_ROOT', '/verif') + '/benign', f_)):
                ext.append({'name': 'agent-%s-r%d' % (k_, i_), 'patch': f_, 'properties': sorted(set(props_)),
                            'note': (notes.get('r%d' % i_, {}).get('what') or '')[:200], 'origin': 'sub-agent'})
    # second batch (structural refactorings: extracted helpers, lambdas, loop forms, named constants)
    for k_, props_ in ext_props.items():
        notes = {}
        np_ = os.path.join(os.environ.get('VERIF_ROOT', '/verif') + '/benign', 'agent2-%s-notes.json' % k_)
        if os.path.exists(np_):
            notes = {n_['name']: n_ for n_ in json.load(open(np_))}
        for i_ in range(1, 7):
            f_ = 'agent2-%s-r%d.patch' % (k_, i_)
            if os.path.exists(os.path.join(os.environ.get('VERIF_ROOT', '/verif') + '/benign', f_)):
                e_ = {'name': 'agent2-%s-r%d' % (k_, i_), 'patch': f_, 'properties': sorted(set(props_)),
                      'note': (notes.get('r%d' % i_, {}).get('what') or '')[:200], 'origin': 'sub-agent'}
                if (k_, i_) == ('u', 2):
                    e_['undecided_ok'] = True   # immediately invoked lambda in ObjectQueue::read: the rules answer 'undecided' (exit 2), not an alarm
                ext.append(e_)
    # third batch (after the round-3 rules: larger extractions, loop forms, lambdas, named constants on the repaired tree); all properties
    ALLP = ['C%02d' % i for i in range(1, 18)]
    for k_ in ext_props:
        notes = {}
        np_ = os.path.join(os.environ.get('VERIF_ROOT', '/verif') + '/benign', 'agent3-%s-notes.json' % k_)
        if os.path.exists(np_):
            notes = {n_['name']: n_ for n_ in json.load(open(np_))}
        for i_ in range(1, 7):
            f_ = 'agent3-%s-r%d.patch' % (k_, i_)
            if os.path.exists(os.path.join(os.environ.get('VERIF_ROOT', '/verif') + '/benign', f_)):
                ext.append({'name': 'agent3-%s-r%d' % (k_, i_), 'patch': f_, 'properties': sorted(set(ext_props[k_]) | ({'C08', 'C09', 'C10', 'C15', 'C16'} if k_ in 'fu' else {'C08', 'C10'})),
                            'note': (notes.get('r%d' % i_, {}).get('what') or '')[:200], 'origin': 'sub-agent'})
    # fourth batch (after round 4 of the seeded changes; equivalent re-formulations, De Morgan, extracted helpers with reference parameters)
    for k_ in ext_props:
        notes = {}
        np_ = os.path.join(os.environ.get('VERIF_ROOT', '/verif') + '/benign', 'agent4-%s-notes.json' % k_)
        if os.path.exists(np_):
            notes = {n_['name']: n_ for n_ in json.load(open(np_))}
        for i_ in range(1, 7):
            f_ = 'agent4-%s-r%d.patch' % (k_, i_)
            if os.path.exists(os.path.join(os.environ.get('VERIF_ROOT', '/verif') + '/benign', f_)):
                ext.append({'name': 'agent4-%s-r%d' % (k_, i_), 'patch': f_, 'properties': list(ALLP),
                            'note': (notes.get('r%d' % i_, {}).get('what') or '')[:200], 'origin': 'sub-agent'})
    # fifth batch (after round 5: comparison rewrites, De Morgan, reordered independent statements, named predicates / constants,
    # helpers reachable from the destructor only, local references, a zero-initialised local pad buffer); all properties
    for k_ in ('f', 'u', 'q', 'h', 'c', 'm'):
        notes = {}
        np_ = os.path.join(os.environ.get('VERIF_ROOT', '/verif') + '/benign', 'agent5-%s-notes.json' % k_)
        if os.path.exists(np_):
            notes = {n_['name']: n_ for n_ in json.load(open(np_))}
        for i_ in range(1, 7):
            f_ = 'agent5-%s-r%d.patch' % (k_, i_)
            if os.path.exists(os.path.join(os.environ.get('VERIF_ROOT', '/verif') + '/benign', f_)):
                ext.append({'name': 'agent5-%s-r%d' % (k_, i_), 'patch': f_, 'properties': list(ALLP),
                            'note': (notes.get('r%d' % i_, {}).get('what') or '')[:200], 'origin': 'sub-agent'})
    # sixth batch (after round 6: bit-test helpers for the open mode, renamed private members / methods, reordered disjuncts, helpers with
    # parameters, stream accessor, lock wrapper taking a lambda, hand-written complete copy operations, 64-bit respellings of the step back)
    for k_ in ('f', 'u', 'q', 'h', 'c', 'm'):
        notes = {}
        np_ = os.path.join(os.environ.get('VERIF_ROOT', '/verif') + '/benign', 'agent6-%s-notes.json' % k_)
        if os.path.exists(np_):
            notes = {n_['name']: n_ for n_ in json.load(open(np_))}
        for i_ in range(1, 7):
            f_ = 'agent6-%s-r%d.patch' % (k_, i_)
            if os.path.exists(os.path.join(os.environ.get('VERIF_ROOT', '/verif') + '/benign', f_)):
                ext.append({'name': 'agent6-%s-r%d' % (k_, i_), 'patch': f_, 'properties': list(ALLP),
                            'note': (notes.get('r%d' % i_, {}).get('what') or '')[:200], 'origin': 'sub-agent'})
    # hand-made multi-file variants kept as patches (benign/own-*.patch): checked against every property
    for f_ in sorted(os.listdir(os.environ.get('VERIF_ROOT', '/verif') + '/benign')):
        if f_.startswith('own-') and f_.endswith('.patch'):
            ext.append({'name': f_[:-6], 'patch': f_, 'properties': list(ALLP), 'note': 'hand-made variant', 'origin': 'own'})
    idx = {'mutants': [{k: v for k, v in m.items() if k not in ('pairs', 'extra_edits', 'all_occurrences')} for m in M],
           'benign': [{k: v for k, v in m.items() if k not in ('pairs', 'extra_edits')} for m in G] + ext}
    json.dump(idx, open(os.environ.get('VERIF_ROOT', '/verif') + '/mutants/index.json', 'w'), indent=1)
    print('%d mutants, %d benign variants (+%d from sub-agents)' % (len(M), len(G), len(ext)))


if __name__ == '__main__':
    main()
