#!/usr/bin/env python3
"""authoring helper: mkpatch.py <mutants|benign> <name> <file relative to /repo> <<< JSON [[old,new],...]
writes /verif/<kind>/<name>.patch (unified diff, -p1) after checking that each old string occurs exactly once."""
import difflib, json, os, sys
kind, name, rel = sys.argv[1:4]
pairs = json.load(sys.stdin)
src = open(os.path.join('/repo', rel)).read()
new = src
for old, rep in pairs:
    assert new.count(old) == 1, (name, old, new.count(old))
    new = new.replace(old, rep)
diff = difflib.unified_diff(src.splitlines(True), new.splitlines(True), 'a/' + rel, 'b/' + rel)
out = os.path.join('/verif', kind, name + '.patch')
open(out, 'a').write(''.join(diff))
print('wrote', out)
