#!/usr/bin/env python3
"""recheck_seeds.py [-j N] [id-prefix]: regression over /verif/seeded/*.

Every recorded seeded change is applied to a scratch copy of /repo's current sources (outside /repo and /verif, removed
afterwards) and the checks recorded in its meta.json as reporting it are run against the copy (nothing is executed, the copy is
only parsed).  A seed is
  caught   at least one of those checks exits 1 (or 2 where meta.json recorded exit 2)
  MISSED   every recorded check exits 0
  obsolete meta.json records that a later fix: commit removed the mechanism the change relied on (not run)
  unreported  no check reported it when it was stored (kept for the record, see DESIGN 10)
  stale    the patch no longer applies to the current tree (the tree moved on, e.g. a fix: commit touched the same lines)
Prints one line per seed and a summary; exit 1 if any seed is missed."""
import json
import os
import shutil
import subprocess
import sys
import tempfile
from concurrent.futures import ThreadPoolExecutor

VERIF = os.path.dirname(os.path.dirname(os.path.abspath(__file__)))


def one(sid):
    d = os.path.join(VERIF, 'seeded', sid)
    meta = json.load(open(os.path.join(d, 'meta.json')))
    checks = meta.get('checks', {})
    if meta.get('obsolete'):
        return sid, 'obsolete', {}
    want = [p for p, c in checks.items() if c.get('exit') in (1, 2)]
    if not want:
        return sid, 'unreported', {}     # recorded as not reported by any check when it was stored (see DESIGN 10): nothing to regress
    tmp = tempfile.mkdtemp(prefix='vblf_seed_', dir=os.environ.get('TMPDIR', '/tmp'))
    try:
        dst = os.path.join(tmp, 'repo')
        os.makedirs(dst)
        subprocess.check_call(['rsync', '-a', '--exclude', '_build', '--exclude', '.git', '/repo/', dst + '/'])
        r = subprocess.run(['patch', '-p1', '--no-backup-if-mismatch', '-s', '-d', dst, '-i', os.path.join(d, 'patch.diff')], capture_output=True, text=True)
        if r.returncode != 0:
            return sid, 'stale', {}
        res = {}
        for p in want:
            r = subprocess.run([os.path.join(VERIF, 'bin', 'check'), p, '--repo', dst, '--no-evidence'], capture_output=True, text=True,
                               env=dict(os.environ, VERIF_NO_CONTROL='1'))
            rules = sorted({l.strip().split()[1] for l in r.stdout.splitlines() if l.strip().startswith('rule ')})
            res[p] = (r.returncode, rules)
        ok = any(rc in (1, 2) and rc == checks[p].get('exit') or rc == 1 for p, (rc, _) in res.items())
        return sid, 'caught' if ok else 'MISSED', res
    finally:
        shutil.rmtree(tmp, ignore_errors=True)


def main():
    args = sys.argv[1:]
    j = 8
    if args[:1] == ['-j']:
        j = int(args[1])
        args = args[2:]
    pre = args[0] if args else ''
    ids = sorted(x for x in os.listdir(os.path.join(VERIF, 'seeded')) if x.startswith(pre) and os.path.exists(os.path.join(VERIF, 'seeded', x, 'meta.json')))
    n = {'caught': 0, 'MISSED': 0, 'stale': 0, 'obsolete': 0, 'unreported': 0}
    with ThreadPoolExecutor(max_workers=j) as ex:
        for sid, verdict, res in ex.map(one, ids):
            n[verdict] += 1
            print('%-9s %-7s %s' % (sid, verdict, ' '.join('%s=%d%s' % (p, rc, '[' + ','.join(rules) + ']' if rules else '') for p, (rc, rules) in sorted(res.items()))))
            sys.stdout.flush()
    print('seeds: %d caught, %d missed, %d stale, %d obsolete (the tree was repaired at the root; see meta.json), %d stored as unreported' % (n['caught'], n['MISSED'], n['stale'], n['obsolete'], n['unreported']))
    return 1 if n['MISSED'] else 0


if __name__ == '__main__':
    sys.exit(main())
