#!/bin/bash
# confirm_round.sh <n>: confirm the seeds of round n in their own worktrees /tmp/w<n>_Cxx (at the current HEAD), 4 worktrees at a time;
# one JSON line per seed in /tmp/confirm_r<n>_<P>_<v>.log
n=$1
run() { p=$1; for v in a b; do [ -f /tmp/confirm_r${n}_${p}_$v.log ] || /verif/tools/confirm_seed.sh /tmp/w${n}_$p $v > /tmp/confirm_r${n}_${p}_$v.log 2>&1; done; }
for grp in "C01 C02 C03 C04" "C05 C06 C07 C08" "C09 C10 C11 C12" "C13 C14 C15 C16" "C17"; do
  for p in $grp; do run $p & done
  wait
done
cat /tmp/confirm_r${n}_*.log | grep '^{'
