#!/usr/bin/env python3
"""regen_floors.py: rewrite rules/floors.json from the per-rule instance counts in evidence/*.json (run after a full quick pass on the
unchanged tree, once the new instances were confirmed by reading).  A floor is the count minus one for rules with 2..8 instances (an extracted or inlined local legitimately removes one), 1 for 1, and 90% of
today's count otherwise: a rule that silently matches fewer sites than were confirmed is analysis-broken (exit 2), not a pass."""
import json, os
V = os.path.dirname(os.path.dirname(os.path.abspath(__file__)))
old = json.load(open(os.path.join(V, 'rules', 'floors.json')))
new = {}
for p in sorted(old):
    e = json.load(open(os.path.join(V, 'evidence', p + '.json')))
    br = e['coverage']['rule_instance_counts']
    br = eval(br) if isinstance(br, str) else br
    new[p] = {r: (1 if c == 1 else c - 1 if c <= 8 else int(c * 0.9)) for r, c in sorted(br.items()) if c > 0}
    for r in sorted(set(new[p]) | set(old[p])):
        if new[p].get(r) != old[p].get(r):
            print(p, r, old[p].get(r), '->', new[p].get(r))
json.dump(new, open(os.path.join(V, 'rules', 'floors.json'), 'w'), indent=1, sort_keys=True)
