#!/bin/bash
# try_all.sh <patch>: apply to a scratch copy, run all 17 quick checks, print only non-OK outcomes
p=$1
d=$(mktemp -d /tmp/tryb_XXXX); rsync -a --exclude _build --exclude .git /repo/ $d/repo/
patch -p1 -s -d $d/repo -i $p || { echo "patch failed: $p"; rm -rf $d; exit 1; }
for pr in C01 C02 C03 C04 C05 C06 C07 C08 C09 C10 C11 C12 C13 C14 C15 C16 C17; do
  out=$(VERIF_NO_CONTROL=1 /verif/bin/check $pr --repo $d/repo --no-evidence 2>&1); rc=$?
  if [ $rc -ne 0 ]; then echo "$pr rc=$rc"; echo "$out" | grep -E "^   rule|ANALYSIS|UNDECIDED" | cut -c1-420; fi
done
rm -rf $d
