#!/bin/bash
# confirm every seed dir under /tmp/wc_chk/seed_out at the current HEAD
for d in /tmp/wc_chk/seed_out/*; do
  v=$(basename $d)
  [ -f /tmp/confirm3_$v.log ] && continue
  /verif/tools/confirm_seed.sh /tmp/wc_chk $v > /tmp/confirm3_$v.log 2>&1
done
